(** benchfmt.Files.init: the counting maps (pathCount, pathI) implement the
    declarative label rule. *)
From Perf Require Import Base.Bytes Model.Name Model.Extract Model.Reader Model.Files Proofs.ReaderSlots.
Local Open Scope N_scope.

Lemma cnt_get_incr m k k' : cnt_get (cnt_incr m k) k' = if beq k k' then cnt_get m k + 1 else cnt_get m k'.
Proof.
  unfold cnt_incr. unfold cnt_get at 1. cbn [find fst snd].
  destruct (beq_spec k k') as [<-|Hne]; [reflexivity|].
  fold (cnt_get (filter (fun e => negb (beq (fst e) k)) m) k'). unfold cnt_get.
  induction m as [|[a c] m IH]; cbn [filter find fst snd]; [reflexivity|].
  destruct (beq_spec a k) as [->|Hak]; cbn [negb].
  - destruct (beq_spec k k'); [congruence|]. exact IH.
  - cbn [find fst]. destruct (beq_spec a k'); [reflexivity|exact IH].
Qed.

Definition unl (i : finput) (p : bytes) : bool := negb (fi_labeled i) && beq (fi_path i) p.

Lemma occurrences_snoc ins i p :
  occurrences (ins ++ [i]) p = occurrences ins p + (if unl i p then 1 else 0).
Proof.
  unfold occurrences. rewrite filter_app, app_length. cbn [filter]. fold (unl i p).
  destruct (unl i p); cbn [length]; lia.
Qed.

Lemma occurrences_cons i ins p :
  occurrences (i :: ins) p = (if unl i p then 1 else 0) + occurrences ins p.
Proof.
  unfold occurrences. cbn [filter]. fold (unl i p). destruct (unl i p); cbn [length]; lia.
Qed.

Lemma path_counts_get ins : forall m p,
  cnt_get (fold_left (fun m i => if fi_labeled i then m else cnt_incr m (fi_path i)) ins m) p
  = cnt_get m p + occurrences ins p.
Proof.
  induction ins as [|i ins IH]; intros m p; cbn [fold_left].
  - unfold occurrences. cbn. lia.
  - rewrite IH, occurrences_cons. unfold unl. destruct (fi_labeled i); cbn [negb andb]; [lia|].
    rewrite cnt_get_incr. destruct (beq_spec (fi_path i) p) as [<-|]; lia.
Qed.

Lemma disambiguate_spec count all : (forall p, cnt_get count p = occurrences all p) ->
  forall rest before pathI,
  all = before ++ rest ->
  (forall p, occurrences all p <> 1 -> cnt_get pathI p = occurrences before p) ->
  disambiguate rest count pathI = spec_labels_from all before rest.
Proof.
  intros Hcount. induction rest as [|i rest IH]; intros before pathI Hall Hinv; [reflexivity|].
  cbn [disambiguate spec_labels_from]. rewrite Hcount.
  assert (Hall' : all = (before ++ [i]) ++ rest) by (rewrite <- app_assoc; exact Hall).
  destruct (fi_labeled i) eqn:El; cbn [orb].
  - f_equal. apply IH; auto. intros p Hp. rewrite occurrences_snoc. unfold unl. rewrite El. cbn. rewrite Hinv by exact Hp. lia.
  - destruct (N.eqb_spec (occurrences all (fi_path i)) 1) as [E1|Hne1].
    + f_equal. apply IH; auto. intros p Hp. rewrite occurrences_snoc. unfold unl. rewrite El. cbn [negb andb].
      destruct (beq_spec (fi_path i) p) as [<-|]; [congruence|]. rewrite Hinv by exact Hp. lia.
    + rewrite (Hinv _ Hne1). f_equal. apply IH; auto. intros p Hp.
      rewrite occurrences_snoc, cnt_get_incr. unfold unl. rewrite El. cbn [negb andb].
      destruct (beq_spec (fi_path i) p) as [<-|]; rewrite Hinv by assumption; lia.
Qed.

(** the labels Files gives its inputs: a label=path argument (when labels are
    allowed) keeps its label verbatim; a path given once among the unlabelled
    arguments is its own label; a path given several times gets path#0, path#1, ... in order *)
Theorem labels_rule allow_labels paths : files_inputs allow_labels paths = spec_inputs allow_labels paths.
Proof.
  unfold files_inputs, spec_inputs. apply disambiguate_spec.
  - intros p. unfold path_counts. rewrite path_counts_get. unfold cnt_get. cbn. lia.
  - reflexivity.
  - intros p _. unfold occurrences, cnt_get. reflexivity.
Qed.

(** consequently: unlabelled occurrences of equal paths get pairwise distinct
    labels' counters (the k-th occurrence is numbered k-1) *)
Corollary label_counter ins before i rest :
  ins = before ++ i :: rest -> fi_labeled i = false -> occurrences ins (fi_path i) <> 1 ->
  nth_error (spec_labels_from ins [] ins) (length before) =
  Some (mkFinput (fi_path i) (fi_path i ++ [x23] ++ dec (occurrences before (fi_path i))) false).
Proof.
  intros E Hl Hocc.
  assert (G : forall b r, ins = b ++ r -> forall k, nth_error (spec_labels_from ins b r) k =
            match nth_error r k with
            | None => None
            | Some j => Some (if fi_labeled j then j
                              else if occurrences ins (fi_path j) =? 1 then j
                              else mkFinput (fi_path j) (fi_path j ++ [x23] ++ dec (occurrences (b ++ firstn k r) (fi_path j))) false)
            end).
  { intros b r. revert b. induction r as [|j r IH]; intros b Hb k.
    - destruct k; reflexivity.
    - destruct k as [|k]; cbn [spec_labels_from nth_error firstn].
      + now rewrite app_nil_r.
      + rewrite IH by (rewrite <- app_assoc; exact Hb). destruct (nth_error r k); [|reflexivity].
        rewrite <- app_assoc. reflexivity. }
  rewrite (G [] ins eq_refl). rewrite E at 1. rewrite nth_error_app2 by lia. rewrite Nat.sub_diag. cbn [nth_error].
  rewrite Hl. destruct (N.eqb_spec (occurrences ins (fi_path i)) 1); [congruence|].
  cbn [app]. replace (firstn (length before) ins) with before by (rewrite E, firstn_app_exact; reflexivity).
  reflexivity.
Qed.

(** ** AllowStdin *)

(** with the standard input allowed, the inputs of the model (= the code after
    the repair "count the implicit stdin input") are the declarative ones: the
    paths by the label rule, or the standard input alone, labelled "-" *)
Theorem labels_rule_stdin allow_labels paths :
  files_inputs allow_labels (stdin_paths paths) = spec_inputs_stdin allow_labels paths.
Proof.
  destruct paths as [|p ps]; [|apply labels_rule].
  cbn [stdin_paths spec_inputs_stdin]. destruct allow_labels; vm_compute; reflexivity.
Qed.

(** so the whole run with the standard input is the run over the declarative inputs *)
Theorem files_run_stdin_inputs is_space is_lower is_upper atoi parse_float fs allow_labels paths stdin :
  files_run_stdin is_space is_lower is_upper atoi parse_float fs allow_labels paths stdin =
  files_loop is_space is_lower is_upper atoi parse_float (with_stdin stdin fs)
             (spec_inputs_stdin allow_labels paths) rs_empty.
Proof. unfold files_run_stdin, files_run. now rewrite labels_rule_stdin. Qed.

(** the path "-" reads the standard input whatever file of that name exists *)
Lemma with_stdin_dash stdin fs : fs_find (with_stdin stdin fs) dash = Some stdin.
Proof. unfold with_stdin, fs_find. cbn [find fst snd]. now rewrite beq_refl. Qed.

Lemma with_stdin_other stdin fs p : p <> dash -> fs_find (with_stdin stdin fs) p = fs_find fs p.
Proof.
  intros Hp. unfold with_stdin, fs_find. cbn [find fst snd].
  destruct (beq_spec dash p) as [E|_]; [congruence|].
  induction fs as [|[a c] fs IH]; cbn [filter find fst snd]; [reflexivity|].
  destruct (beq_spec a dash) as [->|Had]; cbn [negb].
  - destruct (beq_spec dash p) as [E|_]; [congruence|]. exact IH.
  - cbn [find fst snd]. destruct (beq a p); [reflexivity|exact IH].
Qed.

(** the code before the repair labelled the only input "-#0" *)
Theorem stdin_label_old_refuted :
  files_inputs_nopaths_old = [mkFinput dash (bs "-#0") false] /\
  spec_inputs_stdin true [] = [mkFinput dash (bs "-") false].
Proof. vm_compute. split; reflexivity. Qed.
