(** Proofs about the projection model (C08): the interning invariant, key
    identity, stability of interned rows. *)
From Coq Require Import Permutation.
From Perf Require Import Base.Bytes Model.Name Model.Extract Model.Key Model.Projection Proofs.Key.

(** ** generic list helpers *)
Lemma set_nth_length {A} n (v : A) l : length (set_nth n v l) = length l.
Proof. revert n; induction l as [|x l IH]; intros [|n]; cbn; auto. Qed.

Lemma upd_nth_length {A} n (f : A -> A) l : length (upd_nth n f l) = length l.
Proof. revert n; induction l as [|x l IH]; intros [|n]; cbn; auto. Qed.

Lemma set_nth_same {A} n (v d : A) l : n < length l -> nth n (set_nth n v l) d = v.
Proof. revert n; induction l as [|x l IH]; intros [|n]; cbn; intros H; try lia; auto. apply IH. lia. Qed.

Lemma set_nth_other {A} n m (v d : A) l : n <> m -> nth m (set_nth n v l) d = nth m l d.
Proof.
  revert n m; induction l as [|x l IH]; intros [|n] [|m]; cbn; intros H; try congruence; auto.
Qed.

Lemma find_index_none {A} (f : A -> bool) l : find_index f l = None -> forall x, In x l -> f x = false.
Proof.
  induction l as [|y l IH]; cbn; [tauto|]. destruct (f y) eqn:E; [discriminate|].
  destruct (find_index f l); [discriminate|]. intros _ x [<-|H]; auto.
Qed.

Lemma find_index_some {A} (f : A -> bool) l k (d : A) :
  find_index f l = Some k -> k < length l /\ f (nth k l d) = true.
Proof.
  revert k; induction l as [|y l IH]; cbn; [discriminate|]. intros k.
  destruct (f y) eqn:E.
  - intros [= <-]. split; [lia|auto].
  - destruct (find_index f l) as [j|]; [|discriminate]. intros [= <-].
    destruct (IH j eq_refl). split; [lia|auto].
Qed.

(** ** the interning invariant *)
Definition KInv (p : projection) : Prop :=
  length (p_row p) = nfields p /\
  Forall (fun r => trimmed r /\ length r <= nfields p) (p_keys p) /\
  NoDup (p_keys p).

(** interned rows are only ever appended to; the field index space only grows *)
Definition pext (p p' : projection) : Prop :=
  (exists ext, p_keys p' = p_keys p ++ ext) /\ nfields p <= nfields p'.

Lemma pext_refl p : pext p p.
Proof. split; [exists []; now rewrite app_nil_r | lia]. Qed.

Lemma pext_trans a b c : pext a b -> pext b c -> pext a c.
Proof.
  intros [[e1 H1] L1] [[e2 H2] L2]. split; [|lia].
  exists (e1 ++ e2). now rewrite H2, H1, app_assoc.
Qed.

(** steps that leave the interned rows alone *)
Definition kstep (p p' : projection) : Prop :=
  p_keys p' = p_keys p /\ nfields p <= nfields p' /\
  (length (p_row p) = nfields p -> length (p_row p') = nfields p').

Lemma kstep_refl p : kstep p p.
Proof. repeat split; auto. Qed.

Lemma kstep_trans a b c : kstep a b -> kstep b c -> kstep a c.
Proof.
  intros [K1 [L1 R1]] [K2 [L2 R2]]. repeat split; [congruence|lia|auto].
Qed.

Lemma kstep_KInv p p' : kstep p p' -> KInv p -> KInv p'.
Proof.
  intros [K [L R]] [I1 [I2 I3]]. repeat split; auto.
  - rewrite K. eapply Forall_impl; [|exact I2]. cbn. intros r [Hr Hl]. split; auto. lia.
  - now rewrite K.
Qed.

Lemma kstep_pext p p' : kstep p p' -> pext p p'.
Proof. intros [K [L _]]. split; auto. exists []. now rewrite app_nil_r. Qed.

Lemma kstep_add_top p n o src : kstep p (fst (add_top_field p n o src)).
Proof.
  unfold kstep, add_top_field, nfields; cbn. rewrite !app_length; cbn. repeat split; lia.
Qed.

Lemma kstep_add_group p n : kstep p (fst (add_group p n)).
Proof. unfold kstep, add_group, nfields; cbn. repeat split; auto. Qed.

Lemma kstep_add_sub p g n o : kstep p (fst (add_sub_field p g n o)).
Proof.
  unfold kstep, add_sub_field, nfields; cbn. rewrite !app_length; cbn. repeat split; lia.
Qed.

Lemma kstep_add_item p it : kstep p (add_item p it).
Proof. unfold kstep, add_item, nfields; cbn. repeat split; auto. Qed.

Lemma kstep_set_unit p u : kstep p (set_unit p u).
Proof. unfold kstep, set_unit, nfields; cbn. repeat split; auto. Qed.

Lemma kstep_set_row p i v : kstep p (set_row p i v).
Proof. unfold kstep, set_row, nfields; cbn. rewrite set_nth_length. repeat split; auto. Qed.

Lemma kstep_clear_row p : kstep p (clear_row p).
Proof. unfold kstep, clear_row, nfields; cbn. rewrite map_length. repeat split; auto. Qed.

Lemma kstep_config_step ck g o p c : kstep p (config_step ck g o p c).
Proof.
  unfold config_step. destruct (negb (c_file c)); [apply kstep_refl|].
  destruct (find_sub p g (c_key c)); [apply kstep_set_row|].
  destruct (mem (c_key c) ck); [apply kstep_refl|].
  pose proof (kstep_add_sub p g (c_key c) o) as H.
  destruct (add_sub_field p g (c_key c) o) as [p1 idx]. cbn in H.
  eapply kstep_trans; [exact H|apply kstep_set_row].
Qed.

Lemma kstep_fold {A} (f : projection -> A -> projection) l :
  (forall p c, kstep p (f p c)) -> forall p, kstep p (fold_left f l p).
Proof.
  intros Hf. induction l as [|c l IH]; intros p; cbn; [apply kstep_refl|].
  eapply kstep_trans; [apply Hf|apply IH].
Qed.

Lemma kstep_run_item r pp p it : kstep p (snd (run_item r (pp, p) it)).
Proof.
  destruct it as [g o|idx|k idx]; cbn.
  - apply kstep_fold. intros; apply kstep_config_step.
  - destruct (full_extract pp (r_name r)); cbn. apply kstep_set_row.
  - apply kstep_set_row.
Qed.

Lemma kstep_fold_items r items : forall pp p, kstep p (snd (fold_left (run_item r) items (pp, p))).
Proof.
  induction items as [|it items IH]; intros pp p; cbn [fold_left]; [apply kstep_refl|].
  pose proof (kstep_run_item r pp p it) as H.
  destruct (run_item r (pp, p) it) as [pp1 p1]. cbn in H.
  eapply kstep_trans; [exact H|apply IH].
Qed.

Lemma kstep_populate pp p r : kstep p (snd (populate pp p r)).
Proof.
  unfold populate. eapply kstep_trans; [apply kstep_clear_row|].
  apply (kstep_fold_items r (p_items p) pp (clear_row p)).
Qed.

(** update_obs does not change the number of fields *)
Lemma update_obs_length fs fl rw : length (update_obs fs fl rw) = length fs.
Proof.
  unfold update_obs. revert fs; induction fl as [|i fl IH]; intros fs; cbn; auto.
  rewrite IH. apply upd_nth_length.
Qed.

(** internRow: invariant, extension, and the returned position denotes the trimmed row *)
Lemma intern_row_spec p :
  KInv p ->
  let '(p', k) := intern_row p in
  KInv p' /\ pext p p' /\ k < length (p_keys p') /\ key_vals p' k = trim (p_row p) /\
  p_row p' = p_row p /\ p_top p' = p_top p /\ p_items p' = p_items p /\ p_unit p' = p_unit p /\
  nfields p' = nfields p.
Proof.
  intros [I1 [I2 I3]]. unfold intern_row.
  destruct (find_index (equal_row (trim (p_row p))) (p_keys p)) as [k|] eqn:E.
  - destruct (find_index_some _ _ _ [] E) as [Hk He]. apply equal_row_eq in He.
    split; [repeat split; auto|]. split; [apply pext_refl|]. split; [auto|].
    split; [unfold key_vals; symmetry; exact He|]. repeat split; auto.
  - pose proof (find_index_none _ _ E) as Hn.
    set (rw := trim (p_row p)) in *.
    set (p' := mkP (p_top p) (update_obs (p_fields p) (flat p) rw) (p_unit p)
                   (p_items p) (p_row p) (p_keys p ++ [rw])).
    assert (Hnf : nfields p' = nfields p) by (unfold nfields; cbn; apply update_obs_length).
    assert (Hk' : p_keys p' = p_keys p ++ [rw]) by reflexivity.
    assert (~ In rw (p_keys p)) as Hni.
    { intros Hin. specialize (Hn _ Hin).
      assert (equal_row rw rw = true) by now apply equal_row_eq.
      congruence. }
    split; [unfold KInv; rewrite Hnf, Hk'; split; [|split]|].
    + exact I1.
    + apply Forall_app; split; auto. constructor; auto. split.
      * apply trim_idem.
      * rewrite <- I1. apply trim_length.
    + clear -I3 Hni. induction (p_keys p) as [|x l IH]; cbn.
      * constructor; auto; constructor.
      * inversion I3; subst. constructor.
        -- intros Hin. apply in_app_or in Hin as [Hin|[<-|[]]]; auto. apply Hni. now left.
        -- apply IH; auto. intros Hin. apply Hni. now right.
    + split; [split; [now exists [rw]|rewrite Hnf; lia]|].
      split; [rewrite Hk', app_length; cbn; lia|].
      split; [unfold key_vals; rewrite Hk', app_nth2 by lia; now rewrite Nat.sub_diag|].
      repeat split; auto.
Qed.

Lemma KInv_set_row p i v : KInv p -> KInv (set_row p i v).
Proof. apply kstep_KInv, kstep_set_row. Qed.

Lemma intern_units_spec u units : forall p,
  KInv p ->
  let '(p', ks) := intern_units p u units in
  KInv p' /\ pext p p' /\ Forall (fun k => k < length (p_keys p')) ks /\
  p_top p' = p_top p /\ p_items p' = p_items p /\ p_unit p' = p_unit p /\ nfields p' = nfields p.
Proof.
  induction units as [|un units IH]; intros p HI; cbn.
  - split; [exact HI|]. split; [apply pext_refl|]. repeat split; auto.
  - pose proof (intern_row_spec (set_row p u un) (KInv_set_row _ _ _ HI)) as H1.
    destruct (intern_row (set_row p u un)) as [p1 k].
    destruct H1 as [K1 [E1 [B1 [_ [_ [T1 [It1 [U1 N1]]]]]]]].
    specialize (IH p1 K1). destruct (intern_units p1 u units) as [p2 ks].
    destruct IH as [K2 [E2 [B2 [T2 [It2 [U2 N2]]]]]].
    split; [exact K2|]. split; [|repeat split].
    + eapply pext_trans; [|exact E2]. eapply pext_trans; [|exact E1].
      apply kstep_pext, kstep_set_row.
    + constructor; auto. destruct E2 as [[ext He] _]. rewrite He, app_length. lia.
    + rewrite T2, T1. reflexivity.
    + rewrite It2, It1. reflexivity.
    + rewrite U2, U1. reflexivity.
    + rewrite N2, N1. unfold nfields, set_row; cbn. reflexivity.
Qed.

Lemma project_spec pp p r :
  KInv p ->
  let '(pp', p', k) := project pp p r in
  KInv p' /\ pext p p' /\ k < length (p_keys p').
Proof.
  intros HI. unfold project.
  pose proof (kstep_populate pp p r) as Hs.
  destruct (populate pp p r) as [pp1 p1]. cbn in Hs.
  pose proof (intern_row_spec p1 (kstep_KInv _ _ Hs HI)) as H.
  destruct (intern_row p1) as [p2 k]. destruct H as [K [E [B _]]].
  split; [exact K|]. split; [|exact B]. eapply pext_trans; [apply kstep_pext; exact Hs|exact E].
Qed.

Lemma project_values_spec pp p r :
  KInv p ->
  let '(pp', p', ks) := project_values pp p r in
  KInv p' /\ pext p p' /\ Forall (fun k => k < length (p_keys p')) ks.
Proof.
  intros HI. unfold project_values.
  pose proof (kstep_populate pp p r) as Hs.
  destruct (populate pp p r) as [pp1 p1]. cbn in Hs.
  pose proof (kstep_KInv _ _ Hs HI) as K1.
  destruct (p_unit p1) as [u|].
  - pose proof (intern_units_spec u (r_units r) p1 K1) as H.
    destruct (intern_units p1 u (r_units r)) as [p2 ks]. destruct H as [K [E [B _]]].
    split; [exact K|]. split; [|exact B]. eapply pext_trans; [apply kstep_pext; exact Hs|exact E].
  - pose proof (intern_row_spec p1 K1) as H.
    destruct (intern_row p1) as [p2 k]. destruct H as [K [E [B _]]].
    split; [exact K|]. split.
    + eapply pext_trans; [apply kstep_pext; exact Hs|exact E].
    + apply Forall_forall. intros x Hx. apply in_map_iff in Hx as [_ [<- _]]. exact B.
Qed.

(** ** freshly parsed projections satisfy the invariant *)
Lemma KInv_new : KInv new_projection.
Proof. repeat split; cbn; auto; constructor. Qed.

Lemma kstep_mp_proj p s p' : mp_proj p s = Some p' -> kstep p p'.
Proof.
  unfold mp_proj. destruct (order_of_spec s) as [o|]; [|discriminate].
  destruct (beq (ps_key s) key_config).
  { destruct (is_fixed o); [discriminate|].
    pose proof (kstep_add_group p key_config) as H.
    destruct (add_group p key_config) as [p1 g]. cbn in H. intros [= <-].
    eapply kstep_trans; [exact H|apply kstep_add_item]. }
  destruct (beq (ps_key s) key_fullname).
  { pose proof (kstep_add_top p key_fullname o SFull) as H.
    destruct (add_top_field p key_fullname o SFull) as [p1 idx]. cbn in H. intros [= <-].
    eapply kstep_trans; [exact H|apply kstep_add_item]. }
  destruct (beq (ps_key s) key_unit); [discriminate|].
  destruct (is_nil (ps_key s)); [discriminate|].
  pose proof (kstep_add_top p (ps_key s) o (SKey (ps_key s))) as H.
  destruct (add_top_field p (ps_key s) o (SKey (ps_key s))) as [p1 idx]. cbn in H. intros [= <-].
  eapply kstep_trans; [exact H|apply kstep_add_item].
Qed.

Lemma kstep_make_projection pp p s pp' p' :
  make_projection pp p s = (pp', Some p') -> kstep p p'.
Proof. unfold make_projection. intros [= _ H]. eapply kstep_mp_proj; eauto. Qed.

Lemma kstep_make_all fs : forall pp p pp' p',
  make_all pp p fs = (pp', Some p') -> kstep p p'.
Proof.
  induction fs as [|s fs IH]; intros pp p pp' p'; cbn [make_all].
  - intros [= _ <-]. apply kstep_refl.
  - unfold make_projection. destruct (mp_proj p s) as [p1|] eqn:E; [|discriminate].
    intros H. eapply kstep_trans; [eapply kstep_mp_proj; eauto|eapply IH; eauto].
Qed.

Lemma KInv_parse pp fs pp' p : parse pp fs = (pp', Some p) -> KInv p.
Proof. intros H. eapply kstep_KInv; [eapply kstep_make_all; exact H|apply KInv_new]. Qed.

Lemma KInv_parse_with_unit pp fs pp' p : parse_with_unit pp fs = (pp', Some p) -> KInv p.
Proof.
  unfold parse_with_unit. destruct (parse pp fs) as [pp1 [p1|]] eqn:E; [|discriminate].
  pose proof (kstep_add_top p1 key_unit OFirst SUnit) as H.
  destruct (add_top_field p1 key_unit OFirst SUnit) as [p2 u]. cbn in H. intros [= _ <-].
  eapply kstep_KInv; [|eapply KInv_parse; exact E].
  eapply kstep_trans; [exact H|apply kstep_set_unit].
Qed.

Lemma KInv_residue_add st k : KInv (snd st) -> KInv (snd (residue_add st k)).
Proof.
  intros H. unfold residue_add.
  unfold make_projection.
  destruct (mp_proj (snd st) (spec_first k)) as [s1|] eqn:E; cbn; auto.
  eapply kstep_KInv; [eapply kstep_mp_proj; exact E|auto].
Qed.

Lemma KInv_residue pp : KInv (snd (residue pp)).
Proof.
  unfold residue.
  set (st1 := if pp_havecfg pp then (pp, new_projection)
              else residue_add (pp, new_projection) key_config).
  assert (KInv (snd st1)) as H1.
  { unfold st1. destruct (pp_havecfg pp); [apply KInv_new|]. apply KInv_residue_add, KInv_new. }
  destruct (pp_havefull (fst st1)); auto. now apply KInv_residue_add.
Qed.

(** ** worlds *)
Definition WInv (w : world) : Prop := Forall KInv (w_projs w).

Definition wext (w w' : world) : Prop :=
  forall pi p, nth_error (w_projs w) pi = Some p ->
    exists p', nth_error (w_projs w') pi = Some p' /\ pext p p'.

Lemma wext_refl w : wext w w.
Proof. intros pi p H. exists p. split; auto. apply pext_refl. Qed.

Lemma wext_trans a b c : wext a b -> wext b c -> wext a c.
Proof.
  intros H1 H2 pi p Hp. destruct (H1 _ _ Hp) as [p1 [Hp1 E1]].
  destruct (H2 _ _ Hp1) as [p2 [Hp2 E2]]. exists p2. split; auto. eapply pext_trans; eauto.
Qed.

Lemma Forall_set_nth {A} (P : A -> Prop) n v l : Forall P l -> P v -> Forall P (set_nth n v l).
Proof.
  intros H Hv. revert n; induction H as [|x l Hx Hl IH]; intros [|n]; cbn; constructor; auto.
Qed.

Lemma nth_error_set_nth_same {A} n (v : A) l x :
  nth_error l n = Some x -> nth_error (set_nth n v l) n = Some v.
Proof. revert n; induction l as [|y l IH]; intros [|n]; cbn; try discriminate; auto. Qed.

Lemma nth_error_set_nth_other {A} n m (v : A) l :
  n <> m -> nth_error (set_nth n v l) m = nth_error l m.
Proof. revert n m; induction l as [|y l IH]; intros [|n] [|m]; cbn; intros; try congruence; auto. Qed.

Lemma wext_set_nth pp pp' projs pi p p' :
  nth_error projs pi = Some p -> pext p p' ->
  wext (mkW pp projs) (mkW pp' (set_nth pi p' projs)).
Proof.
  intros Hp E qi q Hq; cbn in *. destruct (Nat.eq_dec pi qi) as [<-|Hne].
  - exists p'. split; [eapply nth_error_set_nth_same; eauto|]. congruence.
  - exists q. split; [now rewrite nth_error_set_nth_other|apply pext_refl].
Qed.

Lemma wext_app pp pp' projs l : wext (mkW pp projs) (mkW pp' (projs ++ l)).
Proof.
  intros pi p Hp; cbn in *. exists p. split; [|apply pext_refl].
  rewrite nth_error_app1; auto. apply nth_error_Some. congruence.
Qed.

(** keys returned by an operation are positions of interned rows *)
Definition out_in_range (w' : world) (o : op) (x : out) : Prop :=
  match o, x with
  | OpProject pi _, OutKeys ks | OpProjectValues pi _, OutKeys ks =>
      exists p', nth_error (w_projs w') pi = Some p' /\ Forall (fun k => k < length (p_keys p')) ks
  | _, _ => True
  end.

Lemma step_spec w o :
  WInv w -> let '(w', x) := step w o in WInv w' /\ wext w w' /\ out_in_range w' o x.
Proof.
  intros HW. destruct w as [pp projs]. unfold WInv in *; cbn in HW.
  destruct o as [wu fs| |pi r|pi r]; cbn.
  - destruct wu.
    + destruct (parse_with_unit pp fs) as [pp' [p|]] eqn:E; cbn; repeat split; auto using wext_app, wext_refl.
      * apply Forall_app. split; auto. constructor; auto. eapply KInv_parse_with_unit; eauto.
      * intros pi q Hq. exists q. split; auto. apply pext_refl.
    + destruct (parse pp fs) as [pp' [p|]] eqn:E; cbn; repeat split; auto using wext_app, wext_refl.
      * apply Forall_app. split; auto. constructor; auto. eapply KInv_parse; eauto.
      * intros pi q Hq. exists q. split; auto. apply pext_refl.
  - pose proof (KInv_residue pp) as H. destruct (residue pp) as [pp' p]. cbn in *.
    repeat split; auto using wext_app. apply Forall_app. split; auto.
  - destruct (nth_error projs pi) as [p|] eqn:E; cbn.
    + assert (KInv p) as Kp by (eapply Forall_forall; [exact HW|eapply nth_error_In; eauto]).
      pose proof (project_spec pp p r Kp) as H.
      destruct (project pp p r) as [[pp' p'] k]. destruct H as [K [Ex B]]. cbn.
      repeat split.
      * apply Forall_set_nth; auto.
      * eapply wext_set_nth; eauto.
      * exists p'. split; [eapply nth_error_set_nth_same; eauto|]. constructor; auto.
    + repeat split; auto. apply wext_refl.
  - destruct (nth_error projs pi) as [p|] eqn:E; cbn.
    + assert (KInv p) as Kp by (eapply Forall_forall; [exact HW|eapply nth_error_In; eauto]).
      pose proof (project_values_spec pp p r Kp) as H.
      destruct (project_values pp p r) as [[pp' p'] ks]. destruct H as [K [Ex B]]. cbn.
      repeat split.
      * apply Forall_set_nth; auto.
      * eapply wext_set_nth; eauto.
      * exists p'. split; [eapply nth_error_set_nth_same; eauto|]. auto.
    + repeat split; auto. apply wext_refl.
Qed.

Lemma run_ops_spec ops : forall w,
  WInv w ->
  let '(w', xs) := run_ops w ops in
  WInv w' /\ wext w w' /\ length xs = length ops /\
  forall i o x, nth_error ops i = Some o -> nth_error xs i = Some x ->
    match o, x with
    | OpProject pi _, OutKeys ks | OpProjectValues pi _, OutKeys ks =>
        exists p', nth_error (w_projs w') pi = Some p' /\ Forall (fun k => k < length (p_keys p')) ks
    | _, _ => True
    end.
Proof.
  induction ops as [|o ops IH]; intros w HW; cbn.
  - repeat split; auto. apply wext_refl. intros [|i]; discriminate.
  - pose proof (step_spec w o HW) as H1. destruct (step w o) as [w1 x].
    destruct H1 as [W1 [E1 R1]]. specialize (IH w1 W1).
    destruct (run_ops w1 ops) as [w2 xs]. destruct IH as [W2 [E2 [L2 R2]]].
    repeat split; auto.
    + eapply wext_trans; eauto.
    + cbn. now rewrite L2.
    + intros [|i] o' x' Ho Hx; cbn in *.
      * injection Ho as <-. injection Hx as <-.
        unfold out_in_range in R1.
        destruct o as [wu fs| |pi r|pi r]; destruct x as [b| |ks]; auto.
        -- destruct R1 as [p1 [Hp1 B1]]. destruct (E2 _ _ Hp1) as [p2 [Hp2 [[ext He] _]]].
           exists p2. split; auto. eapply Forall_impl; [|exact B1]. cbn. intros k Hk.
           rewrite He, app_length. lia.
        -- destruct R1 as [p1 [Hp1 B1]]. destruct (E2 _ _ Hp1) as [p2 [Hp2 [[ext He] _]]].
           exists p2. split; auto. eapply Forall_impl; [|exact B1]. cbn. intros k Hk.
           rewrite He, app_length. lia.
      * eapply R2; eauto.
Qed.

Lemma WInv_new : WInv new_world.
Proof. constructor. Qed.

(** ** the theorems *)

(** intern_inv: in every reachable state the interned rows have no trailing
    empty string and are pairwise distinct ... *)
Theorem intern_inv ops w xs :
  run_ops new_world ops = (w, xs) ->
  forall p, In p (w_projs w) ->
    NoDup (p_keys p) /\
    forall r, In r (p_keys p) -> trimmed r /\ (r <> [] -> last r [] <> []) /\ length r <= nfields p.
Proof.
  intros H p Hp. pose proof (run_ops_spec ops new_world WInv_new) as S. rewrite H in S.
  destruct S as [W _]. unfold WInv in W. rewrite Forall_forall in W.
  destruct (W p Hp) as [_ [I2 I3]]. split; auto. intros r Hr.
  rewrite Forall_forall in I2. destruct (I2 r Hr) as [Ht Hl]. repeat split; auto.
  now apply trimmed_last.
Qed.

(** ... and never change: whatever happens later, every row stays at its position *)
Theorem intern_stable ops w w' xs pi p k :
  WInv w -> run_ops w ops = (w', xs) ->
  nth_error (w_projs w) pi = Some p -> k < length (p_keys p) ->
  exists p', nth_error (w_projs w') pi = Some p' /\ key_vals p' k = key_vals p k /\
             length (p_keys p) <= length (p_keys p') /\ nfields p <= nfields p'.
Proof.
  intros HW H Hp Hk. pose proof (run_ops_spec ops w HW) as S. rewrite H in S.
  destruct S as [_ [E _]]. destruct (E _ _ Hp) as [p' [Hp' [[ext He] Hn]]].
  exists p'. repeat split; auto.
  - unfold key_vals. rewrite He, app_nth1; auto.
  - rewrite He, app_length. lia.
Qed.

(** two interned rows of one projection are the same node iff they read the same
    on every field index of the (current, hence any later) field set *)
Lemma key_eq_iff_gets p k1 k2 :
  KInv p -> k1 < length (p_keys p) -> k2 < length (p_keys p) ->
  (k1 = k2 <-> forall idx, idx < nfields p -> key_get p k1 idx = key_get p k2 idx).
Proof.
  intros [_ [I2 I3]] H1 H2. split; [intros ->; auto|]. intros Hg.
  rewrite Forall_forall in I2.
  destruct (I2 (key_vals p k1)) as [T1 L1]; [apply nth_In; auto|].
  destruct (I2 (key_vals p k2)) as [T2 L2]; [apply nth_In; auto|].
  assert (key_vals p k1 = key_vals p k2) as He by (eapply trimmed_eq_of_gets; eauto).
  unfold key_vals in He. eapply (proj1 (NoDup_nth (p_keys p) []) I3); eauto.
Qed.

(** the Key returned by Project reads, at every index, exactly what populateRow
    left in the row buffer (trailing-empty trimming loses nothing) *)
Theorem key_get_row pp p r :
  KInv p ->
  let '(pp1, p1) := populate pp p r in
  let '(pp', p', k) := project pp p r in
  pp' = pp1 /\ forall idx, key_get p' k idx = nth idx (p_row p1) [].
Proof.
  intros HI. unfold project.
  pose proof (kstep_populate pp p r) as Hs.
  destruct (populate pp p r) as [pp1 p1]. cbn in Hs.
  pose proof (intern_row_spec p1 (kstep_KInv _ _ Hs HI)) as H.
  destruct (intern_row p1) as [p2 k]. destruct H as [_ [_ [_ [V _]]]].
  split; auto. intros idx. unfold key_get, vals_get. rewrite V. apply trim_nth.
Qed.

(** ProjectValues without a .unit field returns one Key for every value; with a
    .unit field, as many Keys as values *)
Lemma intern_units_length u units : forall p, length (snd (intern_units p u units)) = length units.
Proof.
  induction units as [|un units IH]; intros p; cbn; auto.
  destruct (intern_row (set_row p u un)) as [p1 k]. specialize (IH p1).
  destruct (intern_units p1 u units). cbn in *. now rewrite IH.
Qed.

Theorem project_values_length pp p r :
  let '(_, _, ks) := project_values pp p r in length ks = length (r_units r).
Proof.
  unfold project_values. destruct (populate pp p r) as [pp1 p1].
  destruct (p_unit p1) as [u|].
  - pose proof (intern_units_length u (r_units r) p1) as H.
    destruct (intern_units p1 u (r_units r)). exact H.
  - destruct (intern_row p1). apply map_length.
Qed.
