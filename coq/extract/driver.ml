(* Generic correspondence driver: reads one s-expression case per line, runs the
   extracted Coq function [Dispatch.run prop] on it and prints the non-zero codes.
     syntax:  ( ... )  list   #hex  byte string   [-]digits  integer *)
module M = Model

let byte_of_int (i : int) : M.byte = Obj.magic i   (* constant constructors x00..xff are numbered 0..255 *)

let rec pos_of_int (i : int) : M.positive =
  if i = 1 then M.XH else if i land 1 = 0 then M.XO (pos_of_int (i lsr 1)) else M.XI (pos_of_int (i lsr 1))
let n_of_int i = if i = 0 then M.N0 else M.Npos (pos_of_int i)
let z_of_int i = if i = 0 then M.Z0 else if i > 0 then M.Zpos (pos_of_int i) else M.Zneg (pos_of_int (-i))
let rec int_of_pos = function M.XH -> 1 | M.XO p -> 2 * int_of_pos p | M.XI p -> 2 * int_of_pos p + 1
let int_of_n = function M.N0 -> 0 | M.Npos p -> int_of_pos p

let z_of_decimal (s : string) : M.z =
  let neg = String.length s > 0 && s.[0] = '-' in
  let start = if neg then 1 else 0 in
  let len = String.length s - start in
  let v =
    if len <= 18 then z_of_int (int_of_string (String.sub s start len))
    else begin
      (* chunks of 18 digits folded with extracted Z arithmetic *)
      let acc = ref M.Z0 in
      let i = ref start in
      while !i < String.length s do
        let k = min 18 (String.length s - !i) in
        let chunk = int_of_string (String.sub s !i k) in
        let rec pow10 k = if k = 0 then 1 else 10 * pow10 (k - 1) in
        acc := M.drv_z_add (M.drv_z_mul !acc (z_of_int (pow10 k))) (z_of_int chunk);
        i := !i + k
      done; !acc
    end in
  if neg then M.drv_z_opp v else v

let hexv c = match c with
  | '0'..'9' -> Char.code c - 48 | 'a'..'f' -> Char.code c - 87 | 'A'..'F' -> Char.code c - 55
  | _ -> failwith "bad hex"

let parse_line (s : string) : M.sx =
  let n = String.length s in
  let pos = ref 0 in
  let skip () = while !pos < n && (s.[!pos] = ' ' || s.[!pos] = '\t' || s.[!pos] = '\r') do incr pos done in
  let rec item () : M.sx =
    skip ();
    if !pos >= n then failwith "eof";
    match s.[!pos] with
    | '(' ->
        incr pos;
        let items = ref [] in
        let fin = ref false in
        while not !fin do
          skip ();
          if !pos >= n then failwith "unclosed";
          if s.[!pos] = ')' then (incr pos; fin := true) else items := item () :: !items
        done;
        M.SL (List.rev !items)
    | '#' ->
        incr pos;
        let st = !pos in
        while !pos < n && (match s.[!pos] with '0'..'9' | 'a'..'f' | 'A'..'F' -> true | _ -> false) do incr pos done;
        let h = String.sub s st (!pos - st) in
        let k = String.length h / 2 in
        let rec build i acc = if i < 0 then acc else
            build (i - 1) (byte_of_int (hexv h.[2*i] * 16 + hexv h.[2*i+1]) :: acc) in
        M.SB (build (k - 1) [])
    | '-' | '0'..'9' ->
        let st = !pos in
        incr pos;
        while !pos < n && (match s.[!pos] with '0'..'9' -> true | _ -> false) do incr pos done;
        M.SZ (z_of_decimal (String.sub s st (!pos - st)))
    | c -> failwith (Printf.sprintf "unexpected %c at %d" c !pos)
  in
  item ()

let () =
  (* self-check of the byte representation trick *)
  for i = 0 to 255 do
    if int_of_n (M.drv_byte_to_N (byte_of_int i)) <> i then (prerr_endline "byte representation self-check failed"; exit 3)
  done;
  if Array.length Sys.argv < 3 then (prerr_endline "usage: runmodel <propnum> <cases.sx> [start] [stride]"; exit 2);
  let prop = n_of_int (int_of_string Sys.argv.(1)) in
  let start = if Array.length Sys.argv > 3 then int_of_string Sys.argv.(3) else 0 in
  let stride = if Array.length Sys.argv > 4 then int_of_string Sys.argv.(4) else 1 in
  let ic = open_in Sys.argv.(2) in
  let idx = ref 0 and ran = ref 0 in
  (try
     while true do
       let line = input_line ic in
       if !idx mod stride = start then begin
         let code =
           try int_of_n (M.drv_run prop (parse_line line))
           with Failure m -> (Printf.printf "PARSEFAIL %d %s\n" !idx m; 4)
              | Stack_overflow -> (Printf.printf "STACKOVERFLOW %d\n" !idx; 8) in
         if code <> 0 then Printf.printf "FAIL %d %d\n" !idx code;
         incr ran
       end;
       incr idx
     done
   with End_of_file -> ());
  Printf.printf "DONE %d\n" !ran
