(** Extraction of the executable models for the correspondence driver.
    ExtrOcamlBasic only: bool/option/list/prod/unit/sumbool map to OCaml's;
    N, Z, positive, nat, byte stay the extracted inductive types. *)
From Coq Require Extraction.
From Coq Require Import ExtrOcamlBasic.
From Perf Require Import Base.Bytes Base.Sx Corr.Dispatch.
Extraction "model.ml" Dispatch.run Byte.to_N Byte.of_N Z.add Z.mul Z.opp N.of_nat N.to_nat Z.of_N.
