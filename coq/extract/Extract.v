(** Extraction of the executable models for the correspondence driver.
    ExtrOcamlBasic only: bool/option/list/prod/unit/sumbool map to OCaml's;
    N, Z, positive, nat, byte stay the extracted inductive types. *)
From Coq Require Extraction.
From Coq Require Import ExtrOcamlBasic.
From Perf Require Import Base.Bytes Base.Sx Corr.Dispatch.
(* stable names for what driver.ml uses (extraction renames clashing top-level names) *)
Definition drv_run : N -> sx -> N := Dispatch.run.
Definition drv_byte_to_N (b : byte) : N := Byte.to_N b.
Definition drv_z_add : Z -> Z -> Z := Z.add.
Definition drv_z_mul : Z -> Z -> Z := Z.mul.
Definition drv_z_opp : Z -> Z := Z.opp.
Extraction "model.ml" drv_run drv_byte_to_N drv_z_add drv_z_mul drv_z_opp.
