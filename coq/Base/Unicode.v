(** Unicode: the concrete rune classes of Go's unicode package used to
    *evaluate* the models (theorems are parametric in the classifiers). *)
From Perf Require Import Base.Bytes Base.UnicodeTables.
Local Open Scope N_scope.

Fixpoint in_ranges (rs : list (N * N)) (r : N) : bool :=
  match rs with
  | [] => false
  | (lo, hi) :: rs' => if r <? lo then false else if r <=? hi then true else in_ranges rs' r
  end.

Definition go_is_space (r : N) : bool := in_ranges space_ranges r.
Definition go_is_lower (r : N) : bool := in_ranges lower_ranges r.
Definition go_is_upper (r : N) : bool := in_ranges upper_ranges r.

(** ASCII white space as unicode.IsSpace sees it: \t \n \v \f \r and space *)
Definition ascii_space (r : N) : bool := ((9 <=? r) && (r <=? 13)) || (r =? 32).

Definition ranges_eqb (a b : list (N * N)) : bool :=
  list_eqb (fun x y => N.eqb (fst x) (fst y) && N.eqb (snd x) (snd y)) a b.

Fixpoint all_below (n : nat) (f : N -> bool) : bool :=
  match n with O => true | S n' => f (N.of_nat n') && all_below n' f end.

Lemma all_below_spec n f : all_below n f = true -> forall r, r < N.of_nat n -> f r = true.
Proof.
  induction n as [|n IH]; cbn [all_below]; intros H r Hr; [lia|].
  apply andb_true_iff in H as [H1 H2].
  destruct (N.eq_dec r (N.of_nat n)) as [->|Hne]; auto. apply IH; auto. lia.
Qed.

Lemma go_is_space_ascii r : r < 128 -> go_is_space r = ascii_space r.
Proof.
  intros H.
  pose proof (all_below_spec 128 (fun r => Bool.eqb (go_is_space r) (ascii_space r)) eq_refl r H) as E.
  cbn beta in E. now apply Bool.eqb_prop in E.
Qed.
