(** Rune: Go's unicode/utf8 DecodeRuneInString / AppendRune / ValidRune as
    executable functions over [bytes], runes being [N]; and the table of
    unicode.IsSpace used to *evaluate* models whose theorems are parametric in
    [is_space] (the harness re-checks the table against Go's unicode package on
    every run). Stdlib only. *)
From Perf Require Import Base.Bytes.
Local Open Scope N_scope.

Definition rune := N.
Definition rune_error : rune := 65533.      (* U+FFFD *)
Definition max_rune : rune := 1114111.      (* U+10FFFF *)

Definition in_rng (lo x hi : N) : bool := (lo <=? x) && (x <=? hi).
Definition is_cont (b : byte) : bool := in_rng 128 (bN b) 191.

(** utf8.DecodeRuneInString: (rune, size); size 0 only for the empty string;
    every invalid or short encoding is (RuneError, 1). The [first] /
    [acceptRanges] tables of the Go source are written out as ranges. *)
Definition decode_rune (s : bytes) : rune * nat :=
  match s with
  | [] => (rune_error, 0%nat)
  | b0 :: t =>
      let s0 := bN b0 in
      if s0 <? 128 then (s0, 1%nat)
      else if (s0 <? 194) || (244 <? s0) then (rune_error, 1%nat)
      else
        (* size and accepted range of the second byte *)
        let sz : nat := if s0 <? 224 then 2%nat else if s0 <? 240 then 3%nat else 4%nat in
        let lo := if s0 =? 224 then 160 else if s0 =? 240 then 144 else 128 in
        let hi := if s0 =? 237 then 159 else if s0 =? 244 then 143 else 191 in
        if (length s <? sz)%nat then (rune_error, 1%nat) else
        match t with
        | [] => (rune_error, 1%nat)
        | b1 :: t1 =>
            let s1 := bN b1 in
            if negb (in_rng lo s1 hi) then (rune_error, 1%nat)
            else if (sz <=? 2)%nat then ((s0 mod 32) * 64 + (s1 mod 64), 2%nat)
            else match t1 with
            | [] => (rune_error, 1%nat)
            | b2 :: t2 =>
                let s2 := bN b2 in
                if negb (in_rng 128 s2 191) then (rune_error, 1%nat)
                else if (sz <=? 3)%nat then ((s0 mod 16) * 4096 + (s1 mod 64) * 64 + (s2 mod 64), 3%nat)
                else match t2 with
                | [] => (rune_error, 1%nat)
                | b3 :: _ =>
                    let s3 := bN b3 in
                    if negb (in_rng 128 s3 191) then (rune_error, 1%nat)
                    else ((s0 mod 8) * 262144 + (s1 mod 64) * 4096 + (s2 mod 64) * 64 + (s3 mod 64), 4%nat)
                end
            end
        end
  end.

Definition is_surrogate (r : rune) : bool := in_rng 55296 r 57343.
(** utf8.ValidRune *)
Definition valid_rune (r : rune) : bool := (r <=? max_rune) && negb (is_surrogate r).

(** total byte-of-N (values are always < 256 where this is used) *)
Definition byte_of_N (n : N) : byte :=
  match Byte.of_N (n mod 256) with Some b => b | None => x00 end.

(** utf8.AppendRune / EncodeRune *)
Definition encode_rune (r : rune) : bytes :=
  if r <=? 127 then [byte_of_N r]
  else if r <=? 2047 then [byte_of_N (192 + r / 64); byte_of_N (128 + r mod 64)]
  else if negb (valid_rune r) then [xef; xbf; xbd]
  else if r <=? 65535 then
    [byte_of_N (224 + r / 4096); byte_of_N (128 + (r / 64) mod 64); byte_of_N (128 + r mod 64)]
  else
    [byte_of_N (240 + r / 262144); byte_of_N (128 + (r / 4096) mod 64);
     byte_of_N (128 + (r / 64) mod 64); byte_of_N (128 + r mod 64)].

Lemma decode_rune_size_le s : (snd (decode_rune s) <= length s)%nat.
Proof.
  destruct s as [|b0 t]; cbn [decode_rune]; [cbn; lia|].
  destruct (bN b0 <? 128); [cbn; lia|].
  destruct ((bN b0 <? 194) || (244 <? bN b0)); [cbn; lia|].
  set (sz := if bN b0 <? 224 then 2%nat else if bN b0 <? 240 then 3%nat else 4%nat).
  destruct (Nat.ltb_spec (length (b0 :: t)) sz) as [Hl|Hl]; [cbn; lia|].
  destruct t as [|b1 t1]; [cbn; lia|].
  match goal with |- context [negb ?c] => destruct c end; cbn [negb]; [|cbn; lia].
  destruct (sz <=? 2)%nat eqn:E2; [apply Nat.leb_le in E2; cbn [snd length] in *; lia|].
  destruct t1 as [|b2 t2]; [cbn; lia|].
  match goal with |- context [negb ?c] => destruct c end; cbn [negb]; [|cbn; lia].
  destruct (sz <=? 3)%nat eqn:E3; [apply Nat.leb_le in E3; cbn [snd length] in *; lia|].
  destruct t2 as [|b3 t3]; [cbn; lia|].
  match goal with |- context [negb ?c] => destruct c end; cbn [negb]; cbn; lia.
Qed.

Lemma decode_rune_size_pos b s : (1 <= snd (decode_rune (b :: s)))%nat.
Proof.
  cbn [decode_rune].
  repeat match goal with
  | |- context [if ?c then _ else _] => destruct c
  | |- context [match ?t with [] => _ | _ :: _ => _ end] => destruct t
  end; cbn [snd]; lia.
Qed.

Lemma decode_rune_ascii b s : bN b < 128 -> decode_rune (b :: s) = (bN b, 1%nat).
Proof. intros H. cbn [decode_rune]. apply N.ltb_lt in H. now rewrite H. Qed.

(** ** unicode.IsSpace (Go 1.23 tables: Latin-1 special cases + White_Space) *)
Definition go_space_ranges : list (N * N) :=
  [(9, 13); (32, 32); (133, 133); (160, 160); (5760, 5760); (8192, 8202);
   (8232, 8233); (8239, 8239); (8287, 8287); (12288, 12288)].

Definition in_ranges (t : list (N * N)) (r : N) : bool :=
  existsb (fun '(lo, hi) => in_rng lo r hi) t.

Definition go_is_space (r : rune) : bool := in_ranges go_space_ranges r.

Definition ranges_count (t : list (N * N)) : N :=
  fold_right (fun '(lo, hi) acc => hi - lo + 1 + acc) 0 t.
