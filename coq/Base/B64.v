(** B64: IEEE-754 binary64 as [spec_float] (Coq.Floats.SpecFloat) at
    prec = 53, emax = 1024: the axiom-free executable semantics that Flocq's
    BinarySingleNaN is proved against. Go's float64 [+ - * / sqrt], comparisons,
    int->float conversion and the bit-pattern codec used by the harness. *)
From Coq Require Import ZArith Bool Lia.
From Coq Require Export Floats.SpecFloat.
Local Open Scope Z_scope.

Definition b64 := spec_float.
Definition prec := 53.
Definition emax := 1024.

Definition b64_add : b64 -> b64 -> b64 := SFadd prec emax.
Definition b64_sub : b64 -> b64 -> b64 := SFsub prec emax.
Definition b64_mul : b64 -> b64 -> b64 := SFmul prec emax.
Definition b64_div : b64 -> b64 -> b64 := SFdiv prec emax.
Definition b64_sqrt : b64 -> b64 := SFsqrt prec emax.
Definition b64_neg : b64 -> b64 := SFopp.
Definition b64_abs : b64 -> b64 := SFabs.

(** Go comparisons: any comparison with NaN is false except [!=]; -0 == +0 *)
Definition b64_eq (x y : b64) : bool := SFeqb x y.
Definition b64_lt (x y : b64) : bool := SFltb x y.
Definition b64_le (x y : b64) : bool := SFleb x y.
Definition b64_gt (x y : b64) : bool := SFltb y x.
Definition b64_ge (x y : b64) : bool := SFleb y x.

Definition b64_is_nan (x : b64) : bool := match x with S754_nan => true | _ => false end.
Definition b64_is_inf (x : b64) : bool := match x with S754_infinity _ => true | _ => false end.
Definition b64_is_zero (x : b64) : bool := match x with S754_zero _ => true | _ => false end.
Definition b64_is_finite (x : b64) : bool :=
  match x with S754_zero _ | S754_finite _ _ _ => true | _ => false end.
Definition b64_signbit (x : b64) : bool :=
  match x with S754_zero s | S754_infinity s | S754_finite s _ _ => s | S754_nan => false end.

(** float64(int64): correctly rounded conversion of an integer *)
Definition b64_of_Z (z : Z) : b64 := binary_normalize prec emax z 0 false.
(** m * 2^e correctly rounded *)
Definition b64_of_ZE (m e : Z) : b64 := binary_normalize prec emax m e false.

Definition b64_zero : b64 := S754_zero false.
Definition b64_one : b64 := b64_of_Z 1.

(** ** bit patterns (math.Float64bits / Float64frombits); all NaNs are one NaN *)
Definition b64_of_bits (w : Z) : b64 :=
  let s := Z.testbit w 63 in
  let e := Z.land (Z.shiftr w 52) 2047 in
  let m := Z.land w (2^52 - 1) in
  if e =? 0 then
    match m with
    | Zpos p => S754_finite s p (-1074)
    | _ => S754_zero s
    end
  else if e =? 2047 then
    if m =? 0 then S754_infinity s else S754_nan
  else
    match m + 2^52 with
    | Zpos p => S754_finite s p (e - 1075)
    | _ => S754_nan
    end.

Definition canonical_nan_bits : Z := 0x7FF8000000000001.

Definition bits_of_b64 (x : b64) : Z :=
  let sb (s : bool) := if s then 2^63 else 0 in
  match x with
  | S754_zero s => sb s
  | S754_infinity s => sb s + 2047 * 2^52
  | S754_nan => canonical_nan_bits
  | S754_finite s m e =>
      if (Zpos m <? 2^52) then sb s + Zpos m   (* subnormal: e = -1074 *)
      else sb s + (e + 1075) * 2^52 + (Zpos m - 2^52)
  end.

(** identity of values as Go's bit patterns see them, with all NaNs identified *)
Definition b64_same (x y : b64) : bool :=
  match x, y with
  | S754_nan, S754_nan => true
  | S754_zero a, S754_zero b => Bool.eqb a b
  | S754_infinity a, S754_infinity b => Bool.eqb a b
  | S754_finite a m e, S754_finite b m' e' => Bool.eqb a b && Pos.eqb m m' && Z.eqb e e'
  | _, _ => false
  end.

Lemma b64_same_refl x : b64_same x x = true.
Proof.
  destruct x; cbn; auto using Bool.eqb_reflx.
  now rewrite Bool.eqb_reflx, Pos.eqb_refl, Z.eqb_refl.
Qed.

Lemma b64_same_eq x y : b64_same x y = true <-> x = y.
Proof.
  split; [|intros ->; apply b64_same_refl].
  destruct x, y; cbn; try congruence.
  - intros H; apply Bool.eqb_prop in H; congruence.
  - intros H; apply Bool.eqb_prop in H; congruence.
  - rewrite !andb_true_iff, Pos.eqb_eq, Z.eqb_eq. intros [[H ->] ->].
    apply Bool.eqb_prop in H. congruence.
Qed.

(** exact value of a finite float as a pair (mantissa, exponent): m * 2^e *)
Definition b64_to_ZE (x : b64) : option (Z * Z) :=
  match x with
  | S754_zero _ => Some (0, 0)
  | S754_finite s m e => Some (if s then Zneg m else Zpos m, e)
  | _ => None
  end.

(** round-trip of the codec on canonical values, checked on representative points *)
Example bits_roundtrip_examples :
  bits_of_b64 (b64_of_bits 0x3FF0000000000000) = 0x3FF0000000000000 /\
  bits_of_b64 (b64_of_bits 0x0000000000000001) = 1 /\
  bits_of_b64 (b64_of_bits 0x8000000000000000) = 0x8000000000000000 /\
  bits_of_b64 (b64_of_bits 0x7FEFFFFFFFFFFFFF) = 0x7FEFFFFFFFFFFFFF /\
  bits_of_b64 (b64_of_bits 0xFFF0000000000000) = 0xFFF0000000000000 /\
  b64_of_bits 0x3FF0000000000000 = b64_one /\
  b64_add (b64_of_bits 0x3FF0000000000000) (b64_of_bits 0x3FF0000000000000) = b64_of_bits 0x4000000000000000.
Proof. vm_compute. repeat split. Qed.
