(** Usort: insertion sort and duplicate-free sort for a total order given as a
    [comparison] function; the results are canonical: permutations (resp. lists
    with the same elements) sort to the same list. *)
From Coq Require Import List Bool Lia Permutation.
Import ListNotations.

Section Usort.
  Context {A : Type} (cmp : A -> A -> comparison).

  Fixpoint insert (x : A) (l : list A) : list A :=
    match l with
    | [] => [x]
    | y :: l' => match cmp x y with Gt => y :: insert x l' | _ => x :: l end
    end.
  Definition isort (l : list A) : list A := fold_right insert [] l.

  Fixpoint uinsert (x : A) (l : list A) : list A :=
    match l with
    | [] => [x]
    | y :: l' =>
        match cmp x y with
        | Lt => x :: l
        | Eq => l
        | Gt => y :: uinsert x l'
        end
    end.
  Definition usort (l : list A) : list A := fold_right uinsert [] l.

  (** strictly increasing *)
  Fixpoint sincr (l : list A) : Prop :=
    match l with
    | [] => True
    | x :: l' => (forall y, In y l' -> cmp x y = Lt) /\ sincr l'
    end.
  (** non-decreasing *)
  Fixpoint incr (l : list A) : Prop :=
    match l with
    | [] => True
    | x :: l' => (forall y, In y l' -> cmp x y <> Gt) /\ incr l'
    end.

  Hypothesis cmp_eq : forall a b, cmp a b = Eq <-> a = b.
  Hypothesis cmp_antisym : forall a b, cmp b a = CompOpp (cmp a b).
  Hypothesis cmp_trans : forall a b c, cmp a b = Lt -> cmp b c = Lt -> cmp a c = Lt.

  Lemma cmp_refl a : cmp a a = Eq.
  Proof. now apply cmp_eq. Qed.

  Lemma cmp_gt_lt a b : cmp a b = Gt -> cmp b a = Lt.
  Proof. intros H. rewrite cmp_antisym, H. reflexivity. Qed.

  Lemma cmp_le_trans a b c : cmp a b <> Gt -> cmp b c <> Gt -> cmp a c <> Gt.
  Proof.
    intros H1 H2.
    destruct (cmp a b) eqn:E1; [apply cmp_eq in E1; subst; auto | | congruence].
    destruct (cmp b c) eqn:E2; [apply cmp_eq in E2; subst; congruence | | congruence].
    rewrite (cmp_trans _ _ _ E1 E2). discriminate.
  Qed.

  (** *** insertion sort *)
  Lemma insert_perm x l : Permutation (x :: l) (insert x l).
  Proof.
    induction l as [|y l IH]; cbn; auto.
    destruct (cmp x y); auto.
    eapply perm_trans; [apply perm_swap|]. now constructor.
  Qed.

  Lemma isort_perm l : Permutation l (isort l).
  Proof.
    induction l as [|x l IH]; cbn; auto.
    eapply perm_trans; [|apply insert_perm]. now constructor.
  Qed.

  Lemma insert_in x l y : In y (insert x l) <-> y = x \/ In y l.
  Proof.
    split; intros H.
    - apply (Permutation_in _ (Permutation_sym (insert_perm x l))) in H. destruct H; auto.
    - apply (Permutation_in _ (insert_perm x l)). destruct H; [left|right]; auto.
  Qed.

  Lemma insert_incr x l : incr l -> incr (insert x l).
  Proof.
    induction l as [|y l IH]; cbn; intros H.
    - split; auto; intros ? [].
    - destruct H as [Hy Hl]. destruct (cmp x y) eqn:E.
      + split; [|split; auto]. intros z [<-|Hz]; [congruence|].
        apply cmp_eq in E; subst. auto.
      + split; [|split; auto]. intros z [<-|Hz]; [congruence|].
        apply cmp_le_trans with y; [congruence | auto].
      + cbn. split; auto. intros z Hz. apply insert_in in Hz as [->|Hz]; auto.
        rewrite (cmp_gt_lt _ _ E). discriminate.
  Qed.

  Lemma isort_incr l : incr (isort l).
  Proof. induction l; cbn; auto using insert_incr. Qed.

  Lemma incr_perm_eq l l' : incr l -> incr l' -> Permutation l l' -> l = l'.
  Proof.
    revert l'; induction l as [|x l IH]; intros l' H1 H2 HP.
    - apply Permutation_nil in HP. now subst.
    - destruct l' as [|y l']; [apply Permutation_sym, Permutation_nil in HP; discriminate|].
      destruct H1 as [Hx Hl], H2 as [Hy Hl'].
      assert (x = y) as ->.
      { assert (Hin1 : In y (x :: l)) by (apply (Permutation_in _ (Permutation_sym HP)); left; auto).
        assert (Hin2 : In x (y :: l')) by (apply (Permutation_in _ HP); left; auto).
        destruct Hin1 as [->|Hin1]; auto. destruct Hin2 as [->|Hin2]; auto.
        specialize (Hx _ Hin1). specialize (Hy _ Hin2).
        rewrite cmp_antisym in Hy. destruct (cmp x y) eqn:E; cbn in Hy; try congruence.
        now apply cmp_eq. }
      f_equal. apply IH; auto. now apply Permutation_cons_inv in HP.
  Qed.

  Theorem isort_canonical l l' : Permutation l l' -> isort l = isort l'.
  Proof.
    intros HP. apply incr_perm_eq; auto using isort_incr.
    eapply perm_trans; [apply Permutation_sym, isort_perm|].
    eapply perm_trans; [exact HP | apply isort_perm].
  Qed.

  Lemma isort_incr_id l : incr l -> isort l = l.
  Proof. intros H. apply incr_perm_eq; auto using isort_incr, Permutation_sym, isort_perm. Qed.

  Lemma isort_idem l : isort (isort l) = isort l.
  Proof. apply isort_incr_id, isort_incr. Qed.

  Lemma isort_app_l l1 l2 : isort (isort l1 ++ l2) = isort (l1 ++ l2).
  Proof. apply isort_canonical, Permutation_app_tail, Permutation_sym, isort_perm. Qed.

  (** *** duplicate-free sort *)
  Lemma uinsert_in x l y : In y (uinsert x l) <-> y = x \/ In y l.
  Proof.
    induction l as [|z l IH]; cbn; [intuition|].
    destruct (cmp x z) eqn:E; cbn.
    - apply cmp_eq in E; subst. intuition.
    - intuition.
    - rewrite IH. intuition.
  Qed.

  Lemma usort_in l y : In y (usort l) <-> In y l.
  Proof.
    induction l as [|x l IH]; cbn; [tauto|]. rewrite uinsert_in, IH. intuition.
  Qed.

  Lemma uinsert_sincr x l : sincr l -> sincr (uinsert x l).
  Proof.
    induction l as [|y l IH]; cbn; intros H.
    - split; auto; intros ? [].
    - destruct H as [Hy Hl]. destruct (cmp x y) eqn:E.
      + split; auto.
      + split; [|split; auto]. intros z [<-|Hz]; auto. eauto.
      + cbn. split; auto. intros z Hz. apply uinsert_in in Hz as [->|Hz]; auto.
        now apply cmp_gt_lt.
  Qed.

  Lemma usort_sincr l : sincr (usort l).
  Proof. induction l; cbn; auto using uinsert_sincr. Qed.

  Lemma sincr_ext_eq l l' : sincr l -> sincr l' -> (forall x, In x l <-> In x l') -> l = l'.
  Proof.
    revert l'; induction l as [|x l IH]; intros l' H1 H2 HE.
    - destruct l' as [|y l']; auto. exfalso. apply (HE y). now left.
    - destruct l' as [|y l']; [exfalso; apply (HE x); now left|].
      destruct H1 as [Hx Hl], H2 as [Hy Hl'].
      assert (Hirr : forall a, cmp a a = Lt -> False) by (intros a; rewrite cmp_refl; discriminate).
      assert (x = y) as ->.
      { assert (Hin1 : In y (x :: l)) by (apply HE; left; auto).
        assert (Hin2 : In x (y :: l')) by (apply HE; left; auto).
        destruct Hin1 as [->|Hin1]; auto. destruct Hin2 as [->|Hin2]; auto.
        specialize (Hx _ Hin1). specialize (Hy _ Hin2).
        rewrite cmp_antisym, Hx in Hy. discriminate. }
      f_equal. apply IH; auto. intros z. split; intros Hz.
      + assert (In z (y :: l')) as [<-|]; auto. { apply HE. now right. }
        exfalso. eauto.
      + assert (In z (y :: l)) as [<-|]; auto. { apply HE. now right. }
        exfalso. eauto.
  Qed.

  Theorem usort_canonical l l' : (forall x, In x l <-> In x l') -> usort l = usort l'.
  Proof.
    intros HE. apply sincr_ext_eq; auto using usort_sincr.
    intros x. rewrite !usort_in. apply HE.
  Qed.

  Lemma sincr_nodup l : sincr l -> NoDup l.
  Proof.
    induction l as [|x l IH]; cbn; intros H; constructor.
    - intros Hin. destruct H as [H _]. specialize (H _ Hin). rewrite cmp_refl in H. discriminate.
    - apply IH, H.
  Qed.
End Usort.
