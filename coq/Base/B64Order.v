(** B64Order: the order that Go's float comparisons ([<], [<=], [==]) induce on
    non-NaN binary64 values, as facts about [SFcompare]: a total preorder whose
    only non-trivial equivalence is -0 == +0. Stated on raw [spec_float]s:
    SFcompare is lexicographic on (sign class, exponent, mantissa), which is a
    total order whether or not the mantissa is normalised. *)
From Coq Require Import ZArith Bool Lia List.
From Perf Require Import Base.B64.
Local Open Scope Z_scope.

Definition nonnan (x : b64) : Prop := x <> S754_nan.
(** no NaN and no negative zero: values on which [<=] is antisymmetric *)
Definition ordinary (x : b64) : Prop := x <> S754_nan /\ x <> S754_zero true.

(** lexicographic key: class, then exponent, then mantissa (negated for negatives) *)
Definition key (x : b64) : Z * Z * Z :=
  match x with
  | S754_nan => (0, 0, 0)
  | S754_zero _ => (0, 0, 0)
  | S754_infinity s => (if s then -2 else 2, 0, 0)
  | S754_finite s m e => if s then (-1, - e, - Zpos m) else (1, e, Zpos m)
  end.

Definition klt (a b : Z * Z * Z) : Prop :=
  let '(a1, a2, a3) := a in
  let '(b1, b2, b3) := b in
  a1 < b1 \/ (a1 = b1 /\ (a2 < b2 \/ (a2 = b2 /\ a3 < b3))).

Lemma cmp_key x y :
  nonnan x -> nonnan y ->
  (SFcompare x y = Some Lt <-> klt (key x) (key y))
  /\ (SFcompare x y = Some Eq <-> key x = key y)
  /\ (SFcompare x y = Some Gt <-> klt (key y) (key x)).
Proof.
  unfold nonnan. intros Hx Hy.
  destruct x as [sx|sx| |sx mx ex], y as [sy|sy| |sy my ey]; try congruence;
    try destruct sx; try destruct sy; cbn -[Z.compare Pos.compare_cont];
    try solve [repeat split; intros H; try discriminate; try reflexivity; try lia;
               try (injection H; lia)].
  all: change (Pos.compare_cont Eq mx my) with (Pos.compare mx my).
  all: destruct (Z.compare_spec ex ey) as [E|E|E]; [destruct (Pos.compare_spec mx my) as [F|F|F]|..];
      cbn; repeat split; intros H; try discriminate; try reflexivity; try lia;
      try (injection H; lia); try (subst; reflexivity); try (f_equal; lia).
Qed.

Lemma cmp_some x y : nonnan x -> nonnan y -> exists c, SFcompare x y = Some c.
Proof.
  unfold nonnan. destruct x, y; try congruence; cbn; eauto.
Qed.

(** [<=], [<], [==] through keys *)
Definition kle (a b : Z * Z * Z) : Prop := klt a b \/ a = b.

Lemma le_key x y : nonnan x -> nonnan y -> (b64_le x y = true <-> kle (key x) (key y)).
Proof.
  intros Hx Hy. destruct (cmp_key x y Hx Hy) as (L & E & G).
  unfold b64_le, SFleb, kle. destruct (cmp_some x y Hx Hy) as (c & Hc). rewrite Hc in *.
  destruct c; split; intros H; try reflexivity; try discriminate.
  - right. now apply E.
  - left. now apply L.
  - exfalso. assert (K : klt (key y) (key x)) by now apply G.
    destruct (key x) as ((a1, a2), a3), (key y) as ((b1, b2), b3). unfold klt in *.
    destruct H as [H|H]; [lia|injection H; intros; lia].
Qed.

Lemma lt_key x y : nonnan x -> nonnan y -> (b64_lt x y = true <-> klt (key x) (key y)).
Proof.
  intros Hx Hy. destruct (cmp_key x y Hx Hy) as (L & E & G).
  unfold b64_lt, SFltb. destruct (cmp_some x y Hx Hy) as (c & Hc). rewrite Hc in *.
  destruct c; split; intros H; try reflexivity; try discriminate.
  - exfalso. assert (K : key x = key y) by now apply E. rewrite K in H.
    destruct (key y) as ((b1, b2), b3). unfold klt in H. lia.
  - now apply L.
  - exfalso. assert (K : klt (key y) (key x)) by now apply G.
    destruct (key x) as ((a1, a2), a3), (key y) as ((b1, b2), b3). unfold klt in *. lia.
Qed.

Lemma eq_key x y : nonnan x -> nonnan y -> (b64_eq x y = true <-> key x = key y).
Proof.
  intros Hx Hy. destruct (cmp_key x y Hx Hy) as (L & E & G).
  unfold b64_eq, SFeqb. destruct (cmp_some x y Hx Hy) as (c & Hc). rewrite Hc in *.
  destruct c; split; intros H; try reflexivity; try discriminate; try (now apply E).
  - assert (K : Some Lt = Some Eq) by now apply E. discriminate.
  - assert (K : Some Gt = Some Eq) by now apply E. discriminate.
Qed.

Ltac keys x y :=
  let a1 := fresh "a" in let a2 := fresh "a" in let a3 := fresh "a" in
  let b1 := fresh "b" in let b2 := fresh "b" in let b3 := fresh "b" in
  destruct (key x) as ((a1, a2), a3); destruct (key y) as ((b1, b2), b3).

Lemma kle_total a b : kle a b \/ kle b a.
Proof.
  destruct a as ((a1, a2), a3), b as ((b1, b2), b3). unfold kle, klt.
  destruct (Z.lt_total a1 b1) as [?|[?|?]]; try (left; left; lia); try (right; left; lia).
  destruct (Z.lt_total a2 b2) as [?|[?|?]]; try (left; left; lia); try (right; left; lia).
  destruct (Z.lt_total a3 b3) as [?|[?|?]]; try (left; left; lia); try (right; left; lia).
  left; right; subst; reflexivity.
Qed.

Lemma kle_trans a b c : kle a b -> kle b c -> kle a c.
Proof.
  destruct a as ((a1, a2), a3), b as ((b1, b2), b3), c as ((c1, c2), c3). unfold kle, klt.
  intros [H|H] [G|G]; try (injection H as -> -> ->); try (injection G as -> -> ->); auto.
  left; lia.
Qed.

Lemma kle_antisym a b : kle a b -> kle b a -> a = b.
Proof.
  destruct a as ((a1, a2), a3), b as ((b1, b2), b3). unfold kle, klt.
  intros [H|H] [G|G]; auto. lia.
Qed.

Lemma klt_not_kle a b : klt a b <-> ~ kle b a.
Proof.
  destruct a as ((a1, a2), a3), b as ((b1, b2), b3). unfold kle, klt. split.
  - intros H [G|G]; [lia|injection G; lia].
  - intros H.
    destruct (Z.lt_total a1 b1) as [?|[?|?]]; [lia| |exfalso; apply H; left; lia].
    destruct (Z.lt_total a2 b2) as [?|[?|?]]; [lia| |exfalso; apply H; left; lia].
    destruct (Z.lt_total a3 b3) as [?|[?|?]]; [lia| |exfalso; apply H; left; lia].
    exfalso; apply H; right; subst; reflexivity.
Qed.

(** ** the order facts *)
Lemma b64_le_refl x : nonnan x -> b64_le x x = true.
Proof. intros H. apply le_key; auto. right; reflexivity. Qed.

Lemma b64_le_total x y : nonnan x -> nonnan y -> b64_le x y = true \/ b64_le y x = true.
Proof.
  intros Hx Hy. destruct (kle_total (key x) (key y)); [left|right]; apply le_key; auto.
Qed.

Lemma b64_le_trans x y z :
  nonnan x -> nonnan y -> nonnan z -> b64_le x y = true -> b64_le y z = true -> b64_le x z = true.
Proof.
  intros Hx Hy Hz H G. apply le_key; auto. apply le_key in H; auto. apply le_key in G; auto.
  eapply kle_trans; eauto.
Qed.

Lemma b64_eq_le_ge x y :
  nonnan x -> nonnan y -> (b64_eq x y = true <-> b64_le x y = true /\ b64_le y x = true).
Proof.
  intros Hx Hy. rewrite eq_key, !le_key by auto. split.
  - intros ->. split; right; reflexivity.
  - intros [H G]. now apply kle_antisym.
Qed.

Lemma b64_gt_not_le x y : nonnan x -> nonnan y -> b64_gt x y = negb (b64_le x y).
Proof.
  intros Hx Hy. unfold b64_gt.
  destruct (b64_le x y) eqn:E; cbn.
  - destruct (SFltb y x) eqn:F; auto. exfalso.
    apply le_key in E; auto. apply (lt_key y x) in F; auto. apply klt_not_kle in F. auto.
  - destruct (SFltb y x) eqn:F; auto. exfalso.
    assert (G : ~ kle (key x) (key y)) by (intros G; apply le_key in G; auto; congruence).
    apply klt_not_kle in G. apply (lt_key y x) in G; auto. unfold b64_lt in G. congruence.
Qed.

Lemma b64_eq_refl x : nonnan x -> b64_eq x x = true.
Proof. intros H. apply eq_key; auto. Qed.
Lemma b64_eq_sym x y : nonnan x -> nonnan y -> b64_eq x y = b64_eq y x.
Proof.
  intros Hx Hy. destruct (b64_eq x y) eqn:E, (b64_eq y x) eqn:F; auto.
  - apply eq_key in E; auto. symmetry in E. apply eq_key in E; auto. congruence.
  - apply eq_key in F; auto. symmetry in F. apply eq_key in F; auto. congruence.
Qed.
Lemma b64_eq_trans x y z :
  nonnan x -> nonnan y -> nonnan z -> b64_eq x y = true -> b64_eq y z = true -> b64_eq x z = true.
Proof.
  intros Hx Hy Hz H G. apply eq_key; auto. apply eq_key in H; auto. apply eq_key in G; auto. congruence.
Qed.

(** on ordinary values the key is injective: [<=] is antisymmetric *)
Lemma key_inj x y : ordinary x -> ordinary y -> key x = key y -> x = y.
Proof.
  unfold ordinary. intros [Hx Hx'] [Hy Hy'].
  destruct x as [sx|sx| |sx mx ex], y as [sy|sy| |sy my ey]; try congruence;
    try destruct sx; try destruct sy; try congruence; cbn; intros H; try discriminate;
    injection H; intros; f_equal; lia.
Qed.

Lemma ordinary_nonnan x : ordinary x -> nonnan x.
Proof. intros [H _]; exact H. Qed.

Lemma b64_le_antisym x y :
  ordinary x -> ordinary y -> b64_le x y = true -> b64_le y x = true -> x = y.
Proof.
  intros Hx Hy H G. apply key_inj; auto.
  apply le_key in H; auto using ordinary_nonnan. apply le_key in G; auto using ordinary_nonnan.
  now apply kle_antisym.
Qed.
