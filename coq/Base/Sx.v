(** Sx: the one data format in which the harness hands cases (inputs plus the
    implementation's observed outputs) to the model: s-expressions over byte
    strings and integers. Decoding combinators for the Corr/Run*.v files. *)
From Perf Require Import Base.Bytes.

Inductive sx := SB (b : bytes) | SZ (z : Z) | SL (l : list sx).

Definition obind {A B} (o : option A) (f : A -> option B) : option B :=
  match o with Some a => f a | None => None end.
Notation "'do' x <- o ; k" := (obind o (fun x => k)) (at level 200, x pattern, o at level 100, k at level 200).

Definition as_b (s : sx) : option bytes := match s with SB b => Some b | _ => None end.
Definition as_z (s : sx) : option Z := match s with SZ z => Some z | _ => None end.
Definition as_l (s : sx) : option (list sx) := match s with SL l => Some l | _ => None end.
Definition as_bool (s : sx) : option bool :=
  match s with SZ 0 => Some false | SZ 1 => Some true | _ => None end.
Definition as_nat (s : sx) : option nat :=
  match s with SZ z => if (0 <=? z)%Z then Some (Z.to_nat z) else None | _ => None end.
Definition as_N (s : sx) : option N :=
  match s with SZ z => if (0 <=? z)%Z then Some (Z.to_N z) else None | _ => None end.

Fixpoint omap {A B} (f : A -> option B) (l : list A) : option (list B) :=
  match l with
  | [] => Some []
  | x :: l' => do y <- f x; do ys <- omap f l'; Some (y :: ys)
  end.

Definition as_list {A} (f : sx -> option A) (s : sx) : option (list A) :=
  do l <- as_l s; omap f l.
Definition as_pair {A B} (f : sx -> option A) (g : sx -> option B) (s : sx) : option (A * B) :=
  match s with SL [a; b] => do x <- f a; do y <- g b; Some (x, y) | _ => None end.
Definition as_triple {A B C} (f : sx -> option A) (g : sx -> option B) (h : sx -> option C)
           (s : sx) : option (A * B * C) :=
  match s with SL [a; b; c] => do x <- f a; do y <- g b; do z <- h c; Some (x, y, z) | _ => None end.
Definition as_opt {A} (f : sx -> option A) (s : sx) : option (option A) :=
  match s with SL [] => Some None | SL [a] => do x <- f a; Some (Some x) | _ => None end.

(** result code of one case: 0 = fine; bit 0 = model and implementation differ
    on the projected observables; bit 1 = the observed output violates the
    specification predicate; 4 = the case could not be decoded. *)
Definition code_of (corr_ok prop_ok : bool) : N :=
  ((if corr_ok then 0 else 1) + (if prop_ok then 0 else 2))%N.
Definition code_undecodable : N := 4%N.
(** properties with recorded known findings: [known_ok] is the specification
    predicate with EXACTLY the recorded deviation allowed (everything else the
    property demands still holds).  Bit 3 (8) = the specification fails and
    even the relaxed predicate fails: such a case is reported as a violation
    although its input carries a known-finding tag. *)
Definition code_of3 (corr_ok prop_ok known_ok : bool) : N :=
  (code_of corr_ok prop_ok + (if prop_ok then 0 else if known_ok then 0 else 8))%N.
