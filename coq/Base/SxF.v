(** float fields of cases: a float64 travels as its bit pattern *)
From Perf Require Import Base.Bytes Base.Sx Base.B64.
Definition as_f64 (s : sx) : option b64 :=
  match s with SZ z => Some (b64_of_bits z) | _ => None end.
