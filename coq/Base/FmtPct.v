(** FmtPct: exact fixed-precision decimal rendering of a binary64, i.e. what
    fmt.Sprintf("%.Nf") / ("%+.Nf") and "%d" print: the exact value
    m * 2^e scaled by 10^N, rounded half-to-even to an integer, printed with the
    decimal point N digits from the right; "NaN", "+Inf", "-Inf" for the
    non-finite values (with the '+' flag: "+NaN").
    (strconv's %f with an explicit precision is correctly rounded: bigFtoa
    computes the exact decimal expansion and rounds half-to-even.)
    Small helper written for C13; C10's Base/FmtFixed.v covers the same ground
    and the two can be merged. *)
From Perf Require Import Base.Bytes Base.B64.
Local Open Scope Z_scope.

Definition digit_byte (d : Z) : byte :=
  match d with
  | 1 => x31 | 2 => x32 | 3 => x33 | 4 => x34 | 5 => x35
  | 6 => x36 | 7 => x37 | 8 => x38 | 9 => x39 | _ => x30
  end.

Fixpoint dec_fuel (fuel : nat) (z : Z) (acc : bytes) : bytes :=
  match fuel with
  | O => acc
  | S f =>
      let acc' := digit_byte (z mod 10) :: acc in
      let q := z / 10 in
      if q =? 0 then acc' else dec_fuel f q acc'
  end.

(** decimal digits of a non-negative integer, no leading zeros ("0" for 0) *)
Definition dec_nonneg (z : Z) : bytes := dec_fuel (S (Z.to_nat (Z.log2 z))) z [].

(** "%d" *)
Definition dec_Z (z : Z) : bytes := if z <? 0 then x2d :: dec_nonneg (- z) else dec_nonneg z.

(** a / b rounded half-to-even, for a >= 0, b > 0 *)
Definition rhe_div (a b : Z) : Z :=
  let q := a / b in
  let r := a mod b in
  match (2 * r) ?= b with
  | Lt => q
  | Gt => q + 1
  | Eq => if Z.even q then q else q + 1
  end.

(** round-half-even (m * 2^e * 10^prec) *)
Definition scaled_abs (prec : Z) (m : positive) (e : Z) : Z :=
  if 0 <=? e then Zpos m * 2 ^ e * 10 ^ prec
  else rhe_div (Zpos m * 10 ^ prec) (2 ^ (- e)).

(** digits of n with the decimal point [prec] places from the right *)
Definition fixed_abs (prec : nat) (n : Z) : bytes :=
  let ds := dec_nonneg n in
  let ds := repeat x30 (S prec - length ds) ++ ds in
  let k := (length ds - prec)%nat in
  match prec with
  | O => ds
  | _ => firstn k ds ++ x2e :: skipn k ds
  end.

(** [plus] = the '+' flag *)
Definition fmt_fixed (plus : bool) (prec : nat) (x : b64) : bytes :=
  let sign (s : bool) : bytes := if s then [x2d] else if plus then [x2b] else [] in
  match x with
  | S754_nan => if plus then bs "+NaN" else bs "NaN"
  | S754_infinity s => if s then bs "-Inf" else bs "+Inf"
  | S754_zero s => sign s ++ fixed_abs prec 0
  | S754_finite s m e => sign s ++ fixed_abs prec (scaled_abs (Z.of_nat prec) m e)
  end.

Example fmt_fixed_examples :
  fmt_fixed false 3 (b64_of_bits 0x3FB0000000000000) = bs "0.062" /\   (* 0.0625: tie to even *)
  fmt_fixed false 3 (b64_of_bits 0x3FC8000000000000) = bs "0.188" /\   (* 0.1875: tie to even *)
  fmt_fixed false 0 (b64_of_bits 0x4029000000000000) = bs "12" /\      (* 12.5 *)
  fmt_fixed false 0 (b64_of_bits 0x4042C00000000000) = bs "38" /\      (* 37.5 *)
  fmt_fixed true 2 (b64_of_bits 0xBF50624DD2F1A9FC) = bs "-0.00" /\    (* -0.001 *)
  fmt_fixed true 2 (b64_of_bits 0x4059000000000000) = bs "+100.00" /\
  fmt_fixed true 2 (b64_of_bits 0x8000000000000000) = bs "-0.00" /\
  fmt_fixed false 0 (b64_of_bits 0x7FF0000000000000) = bs "+Inf" /\
  dec_Z (-70) = bs "-70" /\ dec_Z 0 = bs "0".
Proof. vm_compute. repeat split. Qed.
