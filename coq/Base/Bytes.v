(** Bytes: Go [string] / [[]byte] as [list byte]; basic executable operations
    and their characterising lemmas. Stdlib only. *)
From Coq Require Import Strings.String Strings.Ascii.
From Coq Require Export List NArith ZArith Bool Lia.
From Coq Require Export Strings.Byte.
Export ListNotations.

Definition bytes := list byte.

(** String literal to bytes, for readable constants in models. *)
Definition bs (s : string) : bytes := list_byte_of_string s.
Export Coq.Strings.String.StringSyntax.
Arguments bs _%string_scope.

Definition bN (b : byte) : N := Byte.to_N b.

(** ** byte equality *)
Lemma beqb_spec (a b : byte) : reflect (a = b) (Byte.eqb a b).
Proof.
  destruct (Byte.eqb a b) eqn:E; constructor.
  - now apply byte_dec_bl.
  - now apply Byte.eqb_false.
Qed.

Lemma beqb_refl a : Byte.eqb a a = true.
Proof. now apply byte_dec_lb. Qed.

Lemma beqb_eq a b : Byte.eqb a b = true <-> a = b.
Proof. split; [apply byte_dec_bl | apply byte_dec_lb]. Qed.

Lemma beqb_neq a b : Byte.eqb a b = false <-> a <> b.
Proof.
  split; [apply Byte.eqb_false|].
  intros H; destruct (beqb_spec a b); congruence.
Qed.

Lemma to_N_inj a b : Byte.to_N a = Byte.to_N b -> a = b.
Proof.
  intros H. pose proof (Byte.of_to_N a) as Ha. pose proof (Byte.of_to_N b) as Hb.
  rewrite H in Ha. congruence.
Qed.

(** ** equality on byte strings *)
Fixpoint beq (a b : bytes) : bool :=
  match a, b with
  | [], [] => true
  | x :: a', y :: b' => Byte.eqb x y && beq a' b'
  | _, _ => false
  end.

Lemma beq_spec a b : reflect (a = b) (beq a b).
Proof.
  revert b; induction a as [|x a IH]; intros [|y b]; cbn; try (constructor; congruence).
  destruct (beqb_spec x y) as [->|Hn]; cbn.
  - destruct (IH b) as [->|Hn]; constructor; congruence.
  - constructor; congruence.
Qed.

Lemma beq_eq a b : beq a b = true <-> a = b.
Proof. destruct (beq_spec a b); split; congruence. Qed.

Lemma beq_refl a : beq a a = true.
Proof. now apply beq_eq. Qed.

(** ** bytewise lexicographic comparison (Go string [<], bytes.Compare) *)
Fixpoint bcmp (a b : bytes) : comparison :=
  match a, b with
  | [], [] => Eq
  | [], _ => Lt
  | _, [] => Gt
  | x :: a', y :: b' =>
      match N.compare (bN x) (bN y) with
      | Eq => bcmp a' b'
      | c => c
      end
  end.

Definition bltb (a b : bytes) : bool := match bcmp a b with Lt => true | _ => false end.

Lemma bcmp_eq a b : bcmp a b = Eq <-> a = b.
Proof.
  revert b; induction a as [|x a IH]; intros [|y b]; cbn; try (split; congruence).
  destruct (N.compare_spec (bN x) (bN y)) as [E|E|E].
  - apply to_N_inj in E; subst. rewrite IH. split; congruence.
  - split; [congruence|]. intros H; inversion H; subst. lia.
  - split; [congruence|]. intros H; inversion H; subst. lia.
Qed.

Lemma bcmp_antisym a b : bcmp b a = CompOpp (bcmp a b).
Proof.
  revert b; induction a as [|x a IH]; intros [|y b]; cbn; try reflexivity.
  rewrite (N.compare_antisym (bN x) (bN y)).
  destruct (N.compare (bN x) (bN y)); cbn; auto.
Qed.

Lemma bcmp_trans_lt a b c : bcmp a b = Lt -> bcmp b c = Lt -> bcmp a c = Lt.
Proof.
  revert b c; induction a as [|x a IH]; intros [|y b] [|z c]; cbn; try congruence.
  destruct (N.compare_spec (bN x) (bN y)) as [E1|E1|E1];
  destruct (N.compare_spec (bN y) (bN z)) as [E2|E2|E2]; try congruence; intros H1 H2.
  - replace (bN x ?= bN z)%N with Eq by (symmetry; apply N.compare_eq_iff; congruence).
    eapply IH; eauto.
  - replace (bN x ?= bN z)%N with Lt by (symmetry; apply N.compare_lt_iff; lia). reflexivity.
  - replace (bN x ?= bN z)%N with Lt by (symmetry; apply N.compare_lt_iff; lia). reflexivity.
  - replace (bN x ?= bN z)%N with Lt by (symmetry; apply N.compare_lt_iff; lia). reflexivity.
Qed.

(** ** prefix / suffix / search *)
Fixpoint has_prefix (s p : bytes) {struct p} : bool :=
  match p, s with
  | [], _ => true
  | y :: p', x :: s' => Byte.eqb x y && has_prefix s' p'
  | _ :: _, [] => false
  end.

Lemma has_prefix_spec s p : has_prefix s p = true <-> exists r, s = p ++ r.
Proof.
  revert s; induction p as [|y p IH]; intros s; cbn.
  - split; [intros _; exists s; reflexivity | auto].
  - destruct s as [|x s]; cbn.
    + split; [congruence|]. intros [r Hr]; discriminate.
    + rewrite andb_true_iff, beqb_eq, IH. split.
      * intros [-> [r ->]]. eauto.
      * intros [r Hr]. inversion Hr; subst. eauto.
Qed.

Lemma has_prefix_app p r : has_prefix (p ++ r) p = true.
Proof. apply has_prefix_spec; eauto. Qed.

Lemma has_prefix_skipn s p : has_prefix s p = true -> s = p ++ skipn (length p) s.
Proof.
  intros H. apply has_prefix_spec in H as [r ->].
  rewrite skipn_app, skipn_all, Nat.sub_diag. reflexivity.
Qed.

(** [contains s p]: bytes.Contains *)
Fixpoint contains (s p : bytes) : bool :=
  has_prefix s p ||
  match s with
  | [] => false
  | _ :: s' => contains s' p
  end.

Lemma contains_spec s p : contains s p = true <-> exists a b, s = a ++ p ++ b.
Proof.
  induction s as [|x s IH]; cbn.
  - rewrite orb_false_r, has_prefix_spec. split.
    + intros [r Hr]. exists [], r. exact Hr.
    + intros [a [b H]]. destruct a; cbn in H.
      * eauto.
      * discriminate.
  - rewrite orb_true_iff, has_prefix_spec, IH. split.
    + intros [[r Hr]|[a [b H]]].
      * exists [], r. exact Hr.
      * exists (x :: a), b. cbn. now f_equal.
    + intros [a [b H]]. destruct a as [|y a]; cbn in H.
      * left; eauto.
      * right. inversion H; subst. eauto.
Qed.

(** [index_byte s c]: bytes.IndexByte as option *)
Fixpoint index_byte (s : bytes) (c : byte) : option nat :=
  match s with
  | [] => None
  | x :: s' => if Byte.eqb x c then Some 0 else option_map S (index_byte s' c)
  end.

Lemma index_byte_none s c : index_byte s c = None <-> ~ In c s.
Proof.
  induction s as [|x s IH]; cbn; [tauto|].
  destruct (beqb_spec x c) as [->|Hn].
  - split; [congruence|]. intros H; exfalso; auto.
  - destruct (index_byte s c); cbn; split; try congruence; intros H.
    + exfalso. destruct IH as [_ IH2]. 
      assert (~ In c s) by tauto. specialize (IH2 H0). discriminate.
    + intros [E|E]; [congruence|]. apply IH in E; auto.
Qed.

Lemma index_byte_some s c i :
  index_byte s c = Some i ->
  nth_error s i = Some c /\ ~ In c (firstn i s).
Proof.
  revert i; induction s as [|x s IH]; cbn; intros i; [congruence|].
  destruct (beqb_spec x c) as [->|Hn].
  - intros [= <-]. cbn. auto.
  - destruct (index_byte s c) as [j|]; cbn; [|congruence].
    intros [= <-]. destruct (IH j eq_refl) as [H1 H2]. cbn. split; auto.
    intros [E|E]; auto.
Qed.

(** ** ASCII classes used by the code *)
Definition is_digit (b : byte) : bool := (48 <=? bN b)%N && (bN b <=? 57)%N.

(** ** hex decoding of harness-emitted data: [hx "6162"] = "ab" *)
Definition hexval (a : ascii) : N :=
  let n := N_of_ascii a in
  if (n <? 58)%N then n - 48 else if (n <? 71)%N then n - 55 else n - 87.

Fixpoint hx (s : string) : bytes :=
  match s with
  | String a (String b r) =>
      match Byte.of_N (hexval a * 16 + hexval b) with
      | Some x => x :: hx r
      | None => hx r
      end
  | _ => []
  end.

(** generic helpers *)
Fixpoint list_eqb {A} (eqb : A -> A -> bool) (a b : list A) : bool :=
  match a, b with
  | [], [] => true
  | x :: a', y :: b' => eqb x y && list_eqb eqb a' b'
  | _, _ => false
  end.

Lemma list_eqb_spec {A} (eqb : A -> A -> bool)
      (H : forall x y, eqb x y = true <-> x = y) a b :
  list_eqb eqb a b = true <-> a = b.
Proof.
  revert b; induction a as [|x a IH]; intros [|y b]; cbn; try (split; congruence).
  rewrite andb_true_iff, H, IH. split; [intros [-> ->]; auto | intros [= -> ->]; auto].
Qed.

Definition option_eqb {A} (eqb : A -> A -> bool) (a b : option A) : bool :=
  match a, b with
  | None, None => true
  | Some x, Some y => eqb x y
  | _, _ => false
  end.
Arguments hx _%string_scope.

Lemma index_byte_app_notin (a : bytes) c r : ~ In c a -> index_byte (a ++ c :: r) c = Some (length a).
Proof.
  induction a as [|x a IH]; cbn; intros H.
  - now rewrite beqb_refl.
  - destruct (beqb_spec x c) as [->|Hn]; [exfalso; auto|].
    rewrite IH by tauto. reflexivity.
Qed.

Lemma firstn_app_exact {A} (a b : list A) : firstn (length a) (a ++ b) = a.
Proof. rewrite firstn_app, Nat.sub_diag, firstn_all. cbn. apply app_nil_r. Qed.

Lemma filter_all_id {A} (f : A -> bool) l : (forall x, In x l -> f x = true) -> filter f l = l.
Proof.
  induction l as [|x l IH]; cbn; intros H; auto.
  rewrite H by auto. f_equal. auto.
Qed.
