(** DecSpec: the specification side of C03.

    - [lex_float]: the grammar of numeric texts accepted as a float64
      (decimal, exponent, hexadecimal with mandatory [p] exponent, the
      underscore rule, inf/infinity/nan spellings, signs), written as a
      declarative decomposition of the text, not as the code's scanner;
    - [rn_b64]: the exact rational  m * 10^e  or  m * 2^e  rounded to the nearest
      binary64, ties to even, overflow to an infinity.  Built from SpecFloat's
      [binary_round] (integers, dyadics) and [SFdiv_core_binary] +
      [binary_round_aux] (quotients), so that it evaluates quickly under
      vm_compute and after extraction; Proofs/RnB64.v links it to Flocq's
      [round radix2 (FLT_exp (-1074) 53) ZnearestE];
    - [parse_float_spec]: text -> (value, error kind), the oracle that the
      correspondence run evaluates on every generated text;
    - [int_value] / [atoi_spec]: decimal integer texts and their exact value;
    - [dec_of_Z]: decimal printing of an integer (the "%d" the writer uses). *)
From Perf Require Import Base.Bytes Base.B64.
Local Open Scope Z_scope.

(** ** error kinds shared by specification, model and harness *)
Inductive num_err := ErrNone | ErrSyntax | ErrRange | ErrOther.

Definition num_err_eqb (a b : num_err) : bool :=
  match a, b with
  | ErrNone, ErrNone | ErrSyntax, ErrSyntax | ErrRange, ErrRange | ErrOther, ErrOther => true
  | _, _ => false
  end.

(** ** characters *)
Definition c_plus : byte := x2b.
Definition c_minus : byte := x2d.
Definition c_dot : byte := x2e.
Definition c_us : byte := x5f.
Definition c_zero : byte := x30.

Definition bZ (b : byte) : Z := Z.of_N (bN b).

Definition is_dec_digit (b : byte) : bool := is_digit b.
Definition is_hex_letter (b : byte) : bool :=
  ((97 <=? bZ b) && (bZ b <=? 102)) || ((65 <=? bZ b) && (bZ b <=? 70)).
Definition is_hex_digit (b : byte) : bool := is_dec_digit b || is_hex_letter b.

(** value of a (hex) digit character *)
Definition digit_val (b : byte) : Z :=
  let n := bZ b in
  if n <=? 57 then n - 48 else if n <=? 70 then n - 55 else n - 87.

(** value of a digit string, most significant first *)
Definition digits_val (base : Z) (l : bytes) : Z :=
  fold_left (fun a c => a * base + digit_val c) l 0.

(** ASCII upper case folded to lower case, as a number *)
Definition lowerN (b : byte) : Z :=
  let n := bZ b in if (65 <=? n) && (n <=? 90) then n + 32 else n.

(** case-insensitive comparison with a lower-case word *)
Definition ieq (s : bytes) (w : bytes) : bool :=
  list_eqb Z.eqb (map lowerN s) (map bZ w).

(** ** pieces of the grammar *)

(** optional sign: [Some true] for '-', [Some false] for '+' *)
Definition split_sign (s : bytes) : option bool * bytes :=
  match s with
  | c :: r => if Byte.eqb c c_plus then (Some false, r)
              else if Byte.eqb c c_minus then (Some true, r)
              else (None, s)
  | [] => (None, [])
  end.

Definition sign_neg (o : option bool) : bool := match o with Some b => b | None => false end.

(** [break p s]: the text before the first character satisfying [p], and the
    text after it if there is one *)
Fixpoint break (p : byte -> bool) (s : bytes) : bytes * option bytes :=
  match s with
  | [] => ([], None)
  | c :: r => if p c then ([], Some r)
              else let '(a, b) := break p r in (c :: a, b)
  end.

Definition is_char (c : byte) (b : byte) : bool := Byte.eqb b c.
Definition is_char_ci (lower_code : Z) (b : byte) : bool := lowerN b =? lower_code.

(** the underscore rule: every '_' stands immediately after a digit (or the
    base prefix, [prev] initially true) and immediately before a digit *)
Fixpoint underscores_ok (isd : byte -> bool) (prev : bool) (s : bytes) : bool :=
  match s with
  | [] => true
  | c :: r =>
      if Byte.eqb c c_us then
        prev && match r with d :: _ => isd d | [] => false end && underscores_ok isd false r
      else underscores_ok isd (isd c) r
  end.

Definition drop_underscores (s : bytes) : bytes :=
  filter (fun c => negb (Byte.eqb c c_us)) s.

(** a signed decimal exponent: optional sign, one or more digits *)
Definition signed_digits (s : bytes) : option Z :=
  let '(sg, r) := split_sign s in
  match r with
  | [] => None
  | _ => if forallb is_dec_digit r
         then Some (if sign_neg sg then - digits_val 10 r else digits_val 10 r)
         else None
  end.

(** mantissa text  digits [ '.' digits ]  with at least one digit:
    returns all the digits and the number of digits after the point *)
Definition mantissa_digits (isd : byte -> bool) (s : bytes) : option (bytes * Z) :=
  let '(ip, fpo) := break (is_char c_dot) s in
  let fp := match fpo with Some f => f | None => [] end in
  if forallb isd ip && forallb isd fp && negb (Nat.eqb (length ip + length fp) 0)
  then Some (ip ++ fp, Z.of_nat (length fp))
  else None.

Inductive lexed :=
| LInf (neg : bool)
| LNaN
| LNum (neg : bool) (base2 : bool) (mant : Z) (exp : Z).
   (* the number (-1)^neg * mant * B^exp, B = 2 if base2 else 10 *)

(** "inf", "infinity" with optional sign; "nan" without sign; any letter case *)
Definition lex_special (s : bytes) : option lexed :=
  let '(sg, r) := split_sign s in
  if ieq r (bs "inf") || ieq r (bs "infinity") then Some (LInf (sign_neg sg))
  else match sg with
       | None => if ieq s (bs "nan") then Some LNaN else None
       | Some _ => None
       end.

(** [0x] / [0X] prefix *)
Definition hex_prefix (s : bytes) : option bytes :=
  match s with
  | z :: x :: body => if Byte.eqb z c_zero && is_char_ci 120 x then Some body else None
  | _ => None
  end.

Definition lex_decimal (neg : bool) (t : bytes) : option lexed :=
  if underscores_ok is_dec_digit false t then
    let '(mp, ep) := break (is_char_ci 101) (drop_underscores t) in    (* 'e' / 'E' *)
    match mantissa_digits is_dec_digit mp with
    | Some (ds, nfrac) =>
        match ep with
        | None => Some (LNum neg false (digits_val 10 ds) (- nfrac))
        | Some et =>
            match signed_digits et with
            | Some e => Some (LNum neg false (digits_val 10 ds) (e - nfrac))
            | None => None
            end
        end
    | None => None
    end
  else None.

Definition lex_hex (neg : bool) (body : bytes) : option lexed :=
  if underscores_ok is_hex_digit true body then
    let '(mp, ep) := break (is_char_ci 112) (drop_underscores body) in   (* 'p' / 'P', mandatory *)
    match mantissa_digits is_hex_digit mp, ep with
    | Some (ds, nfrac), Some et =>
        match signed_digits et with
        | Some e => Some (LNum neg true (digits_val 16 ds) (e - 4 * nfrac))
        | None => None
        end
    | _, _ => None
    end
  else None.

Definition lex_number (s : bytes) : option lexed :=
  let '(sg, r) := split_sign s in
  match hex_prefix r with
  | Some body => lex_hex (sign_neg sg) body
  | None => lex_decimal (sign_neg sg) r
  end.

Definition lex_float (s : bytes) : option lexed :=
  match lex_special s with
  | Some x => Some x
  | None => lex_number s
  end.

(** ** correct rounding of an exact rational *)

Definition digits2 (p : positive) : Z := Zpos (digits2_pos p).

(** n / d rounded to nearest even ([SFdiv]'s core on the integers n, d) *)
Definition rn_ratio (neg : bool) (n d : positive) : b64 :=
  let '(q, e', l) := SFdiv_core_binary prec emax (Zpos n) 0 (Zpos d) 0 in
  binary_round_aux prec emax neg q e' l.

(** [rn_b64 neg m base2 e]: (-1)^neg * m * B^e rounded to the nearest binary64,
    ties to even; magnitudes that round beyond the largest finite float give the
    infinity.  The three guards only avoid building astronomically large
    powers: under each guard the result is the rounded value anyway
    (Proofs/RnB64.v). *)
Definition rn_b64 (neg : bool) (m : Z) (base2 : bool) (e : Z) : b64 :=
  match m with
  | Zpos p =>
      if base2 then
        if digits2 p + e <? -1080 then S754_zero neg          (* < 2^-1080 *)
        else binary_round prec emax neg p e
      else if 0 <=? e then
        if 310 <=? e then S754_infinity neg                   (* >= 10^310 *)
        else binary_round prec emax neg (Z.to_pos (Zpos p * 10 ^ e)) 0
      else
        let k := - e in
        if digits2 p + 1080 <? 3 * k then S754_zero neg       (* < 2^(digits - 3k) < 2^-1080 *)
        else rn_ratio neg p (Z.to_pos (10 ^ k))
  | _ => S754_zero neg
  end.

Definition rn_overflow (v : b64) : bool := b64_is_inf v.

(** ** the specification of ParseFloat(text, 64) *)
Definition b64_inf (neg : bool) : b64 := S754_infinity neg.

Definition value_of_lexed (x : lexed) : b64 * num_err :=
  match x with
  | LInf neg => (b64_inf neg, ErrNone)
  | LNaN => (S754_nan, ErrNone)
  | LNum neg b2 m e =>
      let v := rn_b64 neg m b2 e in
      (v, if rn_overflow v then ErrRange else ErrNone)
  end.

Definition parse_float_spec (s : bytes) : b64 * num_err :=
  match lex_float s with
  | Some x => value_of_lexed x
  | None => (b64_zero, ErrSyntax)
  end.

(** ** decimal integers *)

(** optional sign, one or more decimal digits: the exact integer *)
Definition int_value (s : bytes) : option Z :=
  let '(sg, r) := split_sign s in
  match r with
  | [] => None
  | _ => if forallb is_dec_digit r
         then Some (if sign_neg sg then - digits_val 10 r else digits_val 10 r)
         else None
  end.

Definition min_int64 : Z := - 2^63.
Definition max_int64 : Z := 2^63 - 1.
Definition max_uint64 : Z := 2^64 - 1.

(** Atoi on a 64-bit platform: the exact integer, or a range error carrying the
    nearest bound, or a syntax error carrying 0 *)
Definition atoi_spec (s : bytes) : Z * num_err :=
  match int_value s with
  | None => (0, ErrSyntax)
  | Some n => if n <? min_int64 then (min_int64, ErrRange)
              else if max_int64 <? n then (max_int64, ErrRange)
              else (n, ErrNone)
  end.

(** ** printing an integer in decimal *)
Definition digit_byte (d : Z) : byte :=
  match Byte.of_N (Z.to_N (48 + d)) with Some b => b | None => c_zero end.

Fixpoint dec_digits (fuel : nat) (n : Z) (acc : bytes) : bytes :=
  match fuel with
  | O => acc
  | S f => let acc' := digit_byte (n mod 10) :: acc in
           if n <? 10 then acc' else dec_digits f (n / 10) acc'
  end.

Definition dec_of_nonneg (n : Z) : bytes := dec_digits (S (Z.to_nat (Z.log2 n))) n [].

Definition dec_of_Z (n : Z) : bytes :=
  if n <? 0 then c_minus :: dec_of_nonneg (- n) else dec_of_nonneg n.

(** ** examples (also sanity checks of the definitions) *)
Example lex_examples :
  lex_float (bs "1_000.5e-3") = Some (LNum false false 10005 (-4)) /\
  lex_float (bs "-0x1.8p+1") = Some (LNum true true 24 (-3)) /\
  lex_float (bs "+InFiNiTy") = Some (LInf false) /\
  lex_float (bs "nAn") = Some LNaN /\
  lex_float (bs "+nan") = None /\
  lex_float (bs "0x1") = None /\
  lex_float (bs "1__0") = None /\
  lex_float (bs "_1") = None /\
  lex_float (bs "0x_1p0") = Some (LNum false true 1 0) /\
  lex_float (bs ".") = None /\
  lex_float (bs "1e") = None /\
  lex_float (bs ".5") = Some (LNum false false 5 (-1)) /\
  lex_float (bs "5.") = Some (LNum false false 5 0).
Proof. vm_compute. repeat split. Qed.

Example rn_examples :
  (* 0.1, 1/3 of a ulp cases, the halfway point above 1 (ties to even), overflow boundary *)
  fst (parse_float_spec (bs "0.1")) = b64_of_bits 0x3FB999999999999A /\
  fst (parse_float_spec (bs "1.00000000000000011102230246251565404236316680908203125")) = b64_of_bits 0x3FF0000000000000 /\
  fst (parse_float_spec (bs "1.00000000000000011102230246251565404236316680908203126")) = b64_of_bits 0x3FF0000000000001 /\
  fst (parse_float_spec (bs "1.00000000000000033306690738754696212708950042724609375")) = b64_of_bits 0x3FF0000000000002 /\
  parse_float_spec (bs "1.7976931348623158e308") = (b64_of_bits 0x7FEFFFFFFFFFFFFF, ErrNone) /\
  parse_float_spec (bs "1.797693134862315808e308") = (b64_inf false, ErrRange) /\
  parse_float_spec (bs "-1e400") = (b64_inf true, ErrRange) /\
  parse_float_spec (bs "4.9e-324") = (b64_of_bits 1, ErrNone) /\
  parse_float_spec (bs "2.4703282292062327e-324") = (b64_of_bits 0, ErrNone) /\
  parse_float_spec (bs "2.4703282292062328e-324") = (b64_of_bits 1, ErrNone) /\
  parse_float_spec (bs "-0") = (S754_zero true, ErrNone) /\
  parse_float_spec (bs "0x1.fffffffffffff8p1023") = (b64_inf false, ErrRange) /\
  parse_float_spec (bs "0x1.fffffffffffff7p1023") = (b64_of_bits 0x7FEFFFFFFFFFFFFF, ErrNone) /\
  parse_float_spec (bs "1e-99999999999") = (b64_zero, ErrNone) /\
  parse_float_spec (bs "0x1p-99999999999") = (b64_zero, ErrNone) /\
  parse_float_spec (bs "1e99999999999") = (b64_inf false, ErrRange).
Proof. vm_compute. repeat split. Qed.

Example dec_examples :
  dec_of_Z 0 = bs "0" /\ dec_of_Z (-9223372036854775808) = bs "-9223372036854775808" /\
  dec_of_Z 1234567890 = bs "1234567890" /\
  atoi_spec (bs "-9223372036854775808") = (min_int64, ErrNone) /\
  atoi_spec (bs "9223372036854775808") = (max_int64, ErrRange) /\
  atoi_spec (bs "+") = (0, ErrSyntax).
Proof. vm_compute. repeat split. Qed.
