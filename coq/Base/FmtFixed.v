(** FmtFixed: what [strconv.AppendFloat(buf, x, 'f', prec, 64)] prints for
    [prec >= 0]: the exact round-half-even decimal of the binary value with
    [prec] digits after the point.  A finite binary64 is [m * 2^e] exactly, so
    this is integer arithmetic only (Go reaches it through its exact
    big-decimal path, ftoa.go [bigFtoa] / decimal.go [Round]).

    Shared by C10, C13, C14, C17.  Executable definitions only; the
    characterising lemmas are in Proofs/FmtFixed.v:
      - [rne_div_spec]            nearest, ties to even, unique
      - [fx_value_bound]          |printed - x| <= 1/2 * 10^-prec   (exact integers)
      - [fx_scaled_monotone]      x <= y  ->  printed x <= printed y
      - [fmt_fixed_parse]         the bytes read back as (sign, scaled integer). *)
From Perf Require Import Base.Bytes Base.B64.
Local Open Scope Z_scope.

(** ** round-half-even quotient of [a / d]  ([0 <= a], [0 < d]) *)
Definition rne_div (a d : Z) : Z :=
  let q := a / d in
  let r := a mod d in
  match 2 * r ?= d with
  | Lt => q
  | Gt => q + 1
  | Eq => if Z.even q then q else q + 1
  end.

(** nearest with ties to even, as a relation on integers: [n] is RNE (a/d) *)
Definition is_rne (n a d : Z) : bool :=
  let err := Z.abs (n * d - a) in
  (2 * err <? d) || ((2 * err =? d) && Z.even n).

(** ** the scaled integer that is printed

    [fx_mag m e prec] = RNE (m * 2^e * 10^prec): the digits printed, read as one
    integer (integer part and [prec] fractional digits). *)
Definition fx_mag (m : positive) (e : Z) (prec : nat) : Z :=
  let p10 := 10 ^ Z.of_nat prec in
  match e with
  | Zneg k => rne_div (Zpos m * p10) (2 ^ Zpos k)
  | _ => Zpos m * 2 ^ e * p10
  end.

(** outcome of fixed formatting as data: what any printer of the exact
    half-even decimal must produce *)
Inductive fixed :=
  | FxNaN
  | FxInf (neg : bool)
  | FxFin (neg : bool) (n : Z).     (* sign printed, scaled magnitude *)

Definition fx_of (x : b64) (prec : nat) : fixed :=
  match x with
  | S754_nan => FxNaN
  | S754_infinity s => FxInf s
  | S754_zero s => FxFin s 0
  | S754_finite s m e => FxFin s (fx_mag m e prec)
  end.

(** signed scaled value (the sign of a printed "-0.00" is dropped) *)
Definition fx_signed (x : b64) (prec : nat) : option Z :=
  match fx_of x prec with
  | FxFin s n => Some (if s then - n else n)
  | _ => None
  end.

(** ** decimal digits *)
(* (not [Z.to_N]: extracting it renames [Byte.to_N], which the shared driver uses) *)
Definition digit_byte (d : Z) : byte :=
  match d with
  | 0 => x30 | 1 => x31 | 2 => x32 | 3 => x33 | 4 => x34
  | 5 => x35 | 6 => x36 | 7 => x37 | 8 => x38 | 9 => x39
  | _ => x30
  end.

Fixpoint dec_digits_fuel (fuel : nat) (n : Z) (acc : bytes) : bytes :=
  match fuel with
  | O => acc
  | S f =>
      let acc' := digit_byte (n mod 10) :: acc in
      if n <? 10 then acc' else dec_digits_fuel f (n / 10) acc'
  end.

(** decimal representation of [n >= 0] without leading zeros ("0" for 0) *)
Definition dec_digits (n : Z) : bytes :=
  dec_digits_fuel (S (Z.to_nat (Z.log2 n))) n [].

(** exactly [k] digits of [r] (least significant [k] digits, zero padded) *)
Fixpoint frac_digits (k : nat) (r : Z) (acc : bytes) : bytes :=
  match k with
  | O => acc
  | S k' => frac_digits k' (r / 10) (digit_byte (r mod 10) :: acc)
  end.

Definition fmt_mag (n : Z) (prec : nat) : bytes :=
  let p10 := 10 ^ Z.of_nat prec in
  dec_digits (n / p10) ++
  match prec with
  | O => []
  | _ => x2e :: frac_digits prec (n mod p10) []
  end.

Definition fmt_sign (s : bool) : bytes := if s then [x2d] else [].

Definition fmt_of_fixed (f : fixed) (prec : nat) : bytes :=
  match f with
  | FxNaN => bs "NaN"
  | FxInf false => bs "+Inf"
  | FxInf true => bs "-Inf"
  | FxFin s n => fmt_sign s ++ fmt_mag n prec
  end.

(** [strconv.AppendFloat(nil, x, 'f', prec, 64)] for [prec >= 0] *)
Definition fmt_fixed (x : b64) (prec : nat) : bytes :=
  fmt_of_fixed (fx_of x prec) prec.

(** ** reading a fixed-notation number back (independent of the printer):
    [-]digits[.digits] -> (negative, scaled integer, number of fractional digits) *)
Definition digit_val (b : byte) : option Z :=
  if is_digit b then Some (Z.of_N (bN b) - 48) else None.

Fixpoint read_digits (s : bytes) (acc : Z) (cnt : nat) : Z * nat * bytes :=
  match s with
  | c :: s' =>
      match digit_val c with
      | Some d => read_digits s' (acc * 10 + d) (S cnt)
      | None => (acc, cnt, s)
      end
  | [] => (acc, cnt, [])
  end.

Record parsed_fixed := mkParsed {
  pf_neg : bool;       (* a '-' was printed *)
  pf_int_digits : nat; (* digits before the point *)
  pf_scaled : Z;       (* all digits read as one integer *)
  pf_prec : nat;       (* digits after the point *)
  pf_rest : bytes      (* what follows the number (the prefix) *)
}.

Definition parse_fixed (s : bytes) : option parsed_fixed :=
  let '(neg, s1) := match s with c :: r => if Byte.eqb c x2d then (true, r) else (false, s) | [] => (false, s) end in
  let '(ip, ni, s2) := read_digits s1 0 0 in
  match ni with
  | O => None
  | _ =>
      match s2 with
      | c :: s3 =>
          if Byte.eqb c x2e then
            let '(v, nf, s4) := read_digits s3 ip 0 in
            match nf with
            | O => None
            | _ => Some (mkParsed neg ni v nf s4)
            end
          else Some (mkParsed neg ni ip 0 s2)
      | [] => Some (mkParsed neg ni ip 0 [])
      end
  end.

(** ** correctly rounded decimal -> binary64:  RN (m * 10^e10), as
    [strconv.ParseFloat] specifies.  [SFdiv]'s core works on arbitrary integer
    mantissas, so the quotient m / 10^k is rounded once. *)
Definition b64_of_dec (neg : bool) (m : Z) (e10 : Z) : b64 :=
  match m with
  | Zpos p =>
      match e10 with
      | Zneg k =>
          match 10 ^ Zpos k with
          | Zpos d => SFdiv prec emax (S754_finite neg p 0) (S754_finite false d 0)
          | _ => S754_nan
          end
      | _ => binary_normalize prec emax (if neg then - (m * 10 ^ e10) else m * 10 ^ e10) 0 neg
      end
  | _ => S754_zero neg
  end.
