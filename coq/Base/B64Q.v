(** B64Q: exact rational view of binary64 values (for specification checks by
    exact rational inequalities) and scaling of a sample to integers. *)
From Coq Require Import ZArith QArith List Bool.
From Perf Require Import Base.B64.
Import ListNotations.

(** m * 2^e as a rational *)
Definition Q_of_ZE (m e : Z) : Q :=
  if (0 <=? e)%Z then inject_Z (m * 2 ^ e) else Qmake m (Z.to_pos (2 ^ (- e))).

Definition signedZ (s : bool) (m : positive) : Z := if s then Zneg m else Zpos m.

Definition b64_to_Q (x : b64) : option Q :=
  match x with
  | S754_zero _ => Some 0%Q
  | S754_finite s m e => Some (Q_of_ZE (signedZ s m) e)
  | _ => None
  end.

(** the value divided by 2^E, exactly *)
Definition b64_to_Q_scaled (E : Z) (x : b64) : option Q :=
  match x with
  | S754_zero _ => Some 0%Q
  | S754_finite s m e => Some (Q_of_ZE (signedZ s m) (e - E))
  | _ => None
  end.

Definition b64_exp (x : b64) : option Z :=
  match x with S754_finite _ _ e => Some e | _ => None end.

(** smallest exponent among the finite non-zero values (0 if none) *)
Definition min_exp (xs : list b64) : Z :=
  match fold_left (fun acc x => match b64_exp x, acc with
                                | Some e, Some a => Some (Z.min e a)
                                | Some e, None => Some e
                                | None, _ => acc end) xs None with
  | Some e => e | None => 0%Z end.

Definition all_finite (xs : list b64) : bool := forallb b64_is_finite xs.

(** x / 2^E as an integer, for E <= every exponent of xs *)
Definition scaled_int (E : Z) (x : b64) : Z :=
  match x with
  | S754_finite s m e => signedZ s m * 2 ^ (e - E)
  | _ => 0%Z
  end.

Definition Qabs' (q : Q) : Q := Qmake (Z.abs (Qnum q)) (Qden q).
Definition Qleb := Qle_bool.
(** |a - b| <= t *)
Definition Qclose (a b t : Q) : bool := Qle_bool (Qabs' (a - b)) t.

Example b64_to_Q_examples :
  Qeq_bool (match b64_to_Q (b64_of_ZE 3 (-2)) with Some q => q | None => 0 end) (3 # 4) = true /\
  Qeq_bool (match b64_to_Q_scaled (-4) (b64_of_Z (-5)) with Some q => q | None => 0 end) (-80 # 1) = true /\
  scaled_int (-55) (b64_of_ZE 3 (-2)) = 27021597764222976%Z /\ b64_to_Q (S754_infinity false) = None.
Proof. vm_compute. repeat split. Qed.
