(** Utf8: unicode/utf8.DecodeRune and the rune-by-rune traversal of a byte
    string (Go's [for i, r := range s] / repeated DecodeRune), with the facts
    the tokenisers need. Stdlib only.

    [decode_rune p] returns (rune, width). Go's DecodeRune returns
    (RuneError, 1) for every malformed or truncated sequence, whatever the
    reason (short input, bad continuation byte, surrogate / overlong / too
    large, caught by the per-lead-byte accept range of the second byte), so
    the model folds "input shorter than the sequence" into "continuation byte
    missing". *)
From Perf Require Import Base.Bytes.
Local Open Scope N_scope.

Definition rune_error : N := 65533.   (* U+FFFD *)
Definition rune_self : N := 128.

(** the [first] table of unicode/utf8: lead byte -> sequence length, accept
    range of the second byte, payload bits of the lead byte *)
Inductive lead := LAscii | LInvalid | LMulti (sz : nat) (lo hi : N) (payload : N).

Definition lead_of (b : byte) : lead :=
  let n := bN b in
  if n <? 128 then LAscii
  else if n <? 194 then LInvalid                        (* 80..C1 *)
  else if n <? 224 then LMulti 2 128 191 (n - 192)      (* C2..DF *)
  else if n =? 224 then LMulti 3 160 191 0              (* E0 *)
  else if n <? 237 then LMulti 3 128 191 (n - 224)      (* E1..EC *)
  else if n =? 237 then LMulti 3 128 159 13             (* ED *)
  else if n <? 240 then LMulti 3 128 191 (n - 224)      (* EE..EF *)
  else if n =? 240 then LMulti 4 144 191 0              (* F0 *)
  else if n <? 244 then LMulti 4 128 191 (n - 240)      (* F1..F3 *)
  else if n =? 244 then LMulti 4 128 143 4              (* F4 *)
  else LInvalid.                                        (* F5..FF *)

(** [k] continuation bytes; the first one must lie in [lo,hi], later ones in 80..BF *)
Fixpoint conts (k : nat) (lo hi : N) (t : bytes) (acc : N) : option N :=
  match k with
  | O => Some acc
  | S k' =>
      match t with
      | [] => None
      | b :: t' =>
          if (lo <=? bN b) && (bN b <=? hi)
          then conts k' 128 191 t' (acc * 64 + (bN b - 128))
          else None
      end
  end.

Definition decode_rune (p : bytes) : N * nat :=
  match p with
  | [] => (rune_error, 0%nat)
  | b0 :: t =>
      match lead_of b0 with
      | LAscii => (bN b0, 1%nat)
      | LInvalid => (rune_error, 1%nat)
      | LMulti sz lo hi pay =>
          match conts (sz - 1) lo hi t pay with
          | Some r => (r, sz)
          | None => (rune_error, 1%nat)
          end
      end
  end.

(** a string as the sequence of (rune, its bytes) that a range loop visits *)
Definition chunk := (N * bytes)%type.
Definition flat (l : list chunk) : bytes := concat (map snd l).

Fixpoint runes_fuel (n : nat) (s : bytes) : list chunk :=
  match n with
  | O => []
  | S n' =>
      match s with
      | [] => []
      | _ :: _ =>
          let '(r, w) := decode_rune s in
          (r, firstn w s) :: runes_fuel n' (skipn w s)
      end
  end.
Definition runes (s : bytes) : list chunk := runes_fuel (length s) s.

Definition is_ascii (b : byte) : bool := bN b <? 128.
Definition achunk (b : byte) : chunk := (bN b, [b]).
Definition achunks (s : bytes) : list chunk := map achunk s.

(** ** facts *)

Lemma flat_app a b : flat (a ++ b) = flat a ++ flat b.
Proof. unfold flat. now rewrite map_app, concat_app. Qed.

Lemma flat_cons c l : flat (c :: l) = snd c ++ flat l.
Proof. reflexivity. Qed.

Lemma flat_achunks s : flat (achunks s) = s.
Proof. induction s as [|x s IH]; [reflexivity|]. cbn [achunks map]. rewrite flat_cons. cbn [achunk snd app]. f_equal. exact IH. Qed.

Lemma lead_sz_pos b sz lo hi pay : lead_of b = LMulti sz lo hi pay -> (2 <= sz <= 4)%nat.
Proof.
  unfold lead_of.
  repeat match goal with |- context [if ?c then _ else _] => destruct c end;
    intros [= <- _ _ _] || intros [=]; lia.
Qed.

Lemma conts_length k : forall lo hi t acc r, conts k lo hi t acc = Some r -> (k <= length t)%nat.
Proof.
  induction k as [|k IH]; intros lo hi t acc r; cbn; [lia|].
  destruct t as [|b t]; [discriminate|].
  destruct (_ && _); [|discriminate]. intros H. apply IH in H. cbn. lia.
Qed.

Lemma decode_width p : p <> [] ->
  (1 <= snd (decode_rune p) <= length p)%nat.
Proof.
  destruct p as [|b0 t]; [congruence|]. intros _. cbn [decode_rune].
  destruct (lead_of b0) as [| |sz lo hi pay] eqn:E; cbn; try lia.
  destruct (conts (sz - 1) lo hi t pay) eqn:Ec; cbn; try lia.
  apply conts_length in Ec. apply lead_sz_pos in E. lia.
Qed.

Lemma flat_runes_fuel n : forall s, (length s <= n)%nat -> flat (runes_fuel n s) = s.
Proof.
  induction n as [|n IH]; intros s Hn.
  - destruct s; cbn in *; [reflexivity|lia].
  - destruct s as [|b s]; [reflexivity|].
    cbn [runes_fuel]. destruct (decode_rune (b :: s)) as [r w] eqn:E.
    pose proof (decode_width (b :: s) ltac:(congruence)) as Hw. rewrite E in Hw. cbn [snd] in Hw.
    rewrite flat_cons. cbn [snd]. rewrite IH.
    + apply firstn_skipn.
    + rewrite skipn_length. cbn [length] in *. lia.
Qed.

Lemma flat_runes s : flat (runes s) = s.
Proof. apply flat_runes_fuel. lia. Qed.

(** fuel irrelevance *)
Lemma runes_fuel_irrel n : forall m s, (length s <= n)%nat -> (length s <= m)%nat ->
  runes_fuel n s = runes_fuel m s.
Proof.
  induction n as [|n IH]; intros m s Hn Hm.
  - destruct s; cbn in *; [destruct m; reflexivity|lia].
  - destruct s as [|b s]; [destruct m; reflexivity|].
    destruct m as [|m]; [cbn in Hm; lia|].
    cbn [runes_fuel]. destruct (decode_rune (b :: s)) as [r w] eqn:E.
    pose proof (decode_width (b :: s) ltac:(congruence)) as Hw. rewrite E in Hw. cbn [snd] in Hw.
    f_equal. apply IH; rewrite skipn_length; cbn [length] in *; lia.
Qed.

Lemma runes_fuel_enough n s : (length s <= n)%nat -> runes_fuel n s = runes s.
Proof. intros H. unfold runes. apply runes_fuel_irrel; lia. Qed.

(** unfolding equation of [runes] *)
Lemma runes_cons b s :
  runes (b :: s) =
  (fst (decode_rune (b :: s)), firstn (snd (decode_rune (b :: s))) (b :: s))
    :: runes (skipn (snd (decode_rune (b :: s))) (b :: s)).
Proof.
  unfold runes at 1. cbn [length runes_fuel].
  destruct (decode_rune (b :: s)) as [r w] eqn:E. cbn [fst snd].
  pose proof (decode_width (b :: s) ltac:(congruence)) as Hw. rewrite E in Hw. cbn [snd] in Hw.
  f_equal. apply runes_fuel_enough. rewrite skipn_length. cbn [length]. lia.
Qed.
